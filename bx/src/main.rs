//! bx -- bounded-exhaustive stand-in, counterexample finder and replayer (DESIGN.md 3.5).
//!
//! Links the *real* `truc` crate of /repo.  Executes the same strategy contract that the Verus
//! unit `layout` proves for `append_data`, `append_data_reverse`, `basic` (and `push_datum`,
//! `end`, `align_bytes` below them) -- here on the one strategy neither verifier reaches
//! (`simple`), and on any strategy when a counterexample for a failed obligation is wanted.
//! Everything goes through the public API of `truc`.

use std::{collections::BTreeSet, env, fs, panic, process::exit};

use serde_json::{json, Value};
use truc::record::{
    definition::{
        builder::{
            generic::GenericRecordDefinitionBuilder,
            native::variant::{append_data, append_data_reverse, basic, simple},
        },
        DatumDefinitionCollection, DatumId, NativeDatumDetails, RecordDefinition,
    },
    type_resolver::TypeInfo,
};

type Defs = DatumDefinitionCollection<NativeDatumDetails>;
type Strategy = fn(Vec<DatumId>, Vec<DatumId>, Vec<DatumId>, &mut Defs) -> Vec<DatumId>;

#[derive(Clone, Copy, Debug, PartialEq, Eq, PartialOrd, Ord)]
struct Shape {
    size: usize,
    align: usize,
}

#[derive(Clone, Debug)]
struct Placed {
    shape: Shape,
    offset: usize,
}

#[derive(Clone, Debug)]
struct Case {
    strategy: String,
    pre: Vec<Placed>,
    remove: Vec<usize>, // indices into pre
    add: Vec<Shape>,
    followup: Option<(String, Vec<Shape>)>,
}

fn strategy_by_name(name: &str) -> Strategy {
    match name {
        "simple" => simple,
        "basic" => basic,
        "append_data" => append_data,
        "append_data_reverse" => append_data_reverse,
        _ => {
            eprintln!("unknown strategy {}", name);
            exit(2)
        }
    }
}

const STRATEGIES: [&str; 4] = ["simple", "basic", "append_data", "append_data_reverse"];

fn details(shape: Shape, offset: usize, k: usize) -> NativeDatumDetails {
    NativeDatumDetails::new(
        offset,
        TypeInfo {
            name: format!("T{}_{}_{}", shape.size, shape.align, k),
            size: shape.size,
            align: shape.align,
        },
        false,
    )
}

#[derive(Clone, Debug, PartialEq, Eq)]
struct Snap {
    name: String,
    offset: usize,
    size: usize,
    align: usize,
    type_name: String,
    allow_uninit: bool,
}

fn snapshot(defs: &Defs, n: usize) -> Vec<Snap> {
    (0..n)
        .map(|k| {
            let d = defs.get(DatumId::from(k)).expect("datum");
            Snap {
                name: d.name().to_owned(),
                offset: d.details().offset(),
                size: d.details().size(),
                align: d.details().type_align(),
                type_name: d.details().type_name().to_owned(),
                allow_uninit: d.details().allow_uninit(),
            }
        })
        .collect()
}

fn idx(d: DatumId) -> usize {
    format!("{}", d).parse().unwrap()
}

/// Executable mirror of `strategy_post` (contracts/layout.rs.tpl).  Returns the violated clauses.
fn check_post(
    out: &[DatumId],
    data: &[DatumId],
    add: &[DatumId],
    rm: &[DatumId],
    before: &[Snap],
    after: &[Snap],
) -> Vec<String> {
    let mut v = Vec::new();
    let n = after.len();
    // valid ids
    if out.iter().any(|d| idx(*d) >= n) {
        v.push("wf.valid_ids".to_owned());
        return v;
    }
    // distinct
    let set: BTreeSet<usize> = out.iter().map(|d| idx(*d)).collect();
    if set.len() != out.len() {
        v.push("wf.distinct".to_owned());
    }
    // aligned
    for d in out {
        let s = &after[idx(*d)];
        if s.align == 0 || s.offset % s.align != 0 {
            v.push(format!("wf.aligned(datum {} offset {} align {})", idx(*d), s.offset, s.align));
        }
    }
    // ordered (zero-size data included) and C01 proper
    for i in 0..out.len() {
        for j in i + 1..out.len() {
            let a = &after[idx(out[i])];
            let b = &after[idx(out[j])];
            if a.offset.checked_add(a.size).map_or(true, |e| e > b.offset) {
                v.push(format!(
                    "wf.ordered(list[{}]=datum {} @{}+{} vs list[{}]=datum {} @{})",
                    i, idx(out[i]), a.offset, a.size, j, idx(out[j]), b.offset
                ));
            }
            if a.size > 0 && b.size > 0 {
                let ae = a.offset.saturating_add(a.size);
                let be = b.offset.saturating_add(b.size);
                if a.offset < be && b.offset < ae {
                    v.push(format!(
                        "C01.overlap(datum {} [{}..{}) / datum {} [{}..{}))",
                        idx(out[i]), a.offset, ae, idx(out[j]), b.offset, be
                    ));
                }
                if a.offset >= b.offset {
                    v.push(format!("C02.order(datum {} @{} listed before datum {} @{})",
                        idx(out[i]), a.offset, idx(out[j]), b.offset));
                }
            }
        }
    }
    // members
    let want: BTreeSet<usize> = data
        .iter()
        .filter(|d| !rm.contains(d))
        .chain(add.iter())
        .map(|d| idx(*d))
        .collect();
    if want != set || out.len() != want.len() {
        v.push(format!("members(out={:?} want={:?})", set, want));
    }
    // order of survivors kept (follows from ordered + frame, reported separately)
    // frame
    if before.len() != after.len() {
        v.push("frame.len".to_owned());
    } else {
        for k in 0..n {
            let (b, a) = (&before[k], &after[k]);
            let is_added = add.iter().any(|d| idx(*d) == k);
            let mut bb = b.clone();
            if is_added {
                bb.offset = a.offset;
            }
            if &bb != a {
                v.push(format!("frame(datum {} changed: {:?} -> {:?})", k, b, a));
            }
        }
    }
    v
}

struct Outcome {
    clauses: Vec<String>,
    out: Vec<usize>,
    offsets: Vec<usize>,
    panicked: Option<String>,
}

/// Runs one case by *poking* the pre-state offsets inside a closing closure (fast path used by
/// the enumeration).  `replay` below rebuilds the same pre-state through ordinary requests.
fn run_case_poked(case: &Case) -> Outcome {
    let strategy = strategy_by_name(&case.strategy);
    let mut b = GenericRecordDefinitionBuilder::<NativeDatumDetails>::new();
    let np = case.pre.len();
    for (k, p) in case.pre.iter().enumerate() {
        b.add_datum(format!("p{}", k), details(p.shape, usize::MAX, k)).unwrap();
    }
    for (k, s) in case.add.iter().enumerate() {
        b.add_datum(format!("a{}", k), details(*s, usize::MAX, np + k)).unwrap();
    }
    let nf = case.followup.as_ref().map_or(0, |f| f.1.len());
    if let Some((_, fs)) = &case.followup {
        for (k, s) in fs.iter().enumerate() {
            b.add_datum(format!("f{}", k), details(*s, usize::MAX, np + case.add.len() + k)).unwrap();
        }
    }
    let n = np + case.add.len() + nf;
    let mut clauses = Vec::new();
    let mut outv = Vec::new();
    let case2 = case.clone();
    let res = panic::catch_unwind(panic::AssertUnwindSafe(|| {
        b.close_record_variant_with(
            |_data: Vec<DatumId>, all: Vec<DatumId>, _rm: Vec<DatumId>, defs: &mut Defs| {
                for (k, p) in case2.pre.iter().enumerate() {
                    let d = defs.get_mut(all[k]).unwrap();
                    *d.details_mut() = details(p.shape, p.offset, k);
                }
                let pre: Vec<DatumId> = all[..np].to_vec();
                let add: Vec<DatumId> = all[np..np + case2.add.len()].to_vec();
                let rm: Vec<DatumId> = case2.remove.iter().map(|i| all[*i]).collect();
                let before = snapshot(defs, n);
                let out = strategy(pre.clone(), add.clone(), rm.clone(), defs);
                let after = snapshot(defs, n);
                clauses = check_post(&out, &pre, &add, &rm, &before, &after);
                let mut out = out;
                if let Some((fname, _)) = &case2.followup {
                    // second close on the output of the first: the property-level clauses (C01,
                    // C02) must hold for the variant it produces
                    let fadd: Vec<DatumId> = all[np + case2.add.len()..].to_vec();
                    let before2 = snapshot(defs, n);
                    let out2 = strategy_by_name(fname)(out.clone(), fadd.clone(), vec![], defs);
                    let after2 = snapshot(defs, n);
                    let c2 = check_post(&out2, &out, &fadd, &[], &before2, &after2);
                    clauses.extend(c2.into_iter().map(|c| format!("followup:{}", c)));
                    out = out2;
                }
                outv = out.iter().map(|d| idx(*d)).collect();
                out
            },
        );
    }));
    let panicked = res.err().map(|e| {
        e.downcast_ref::<String>().cloned().or_else(|| e.downcast_ref::<&str>().map(|s| s.to_string())).unwrap_or_else(|| "panic".into())
    });
    let offsets = if panicked.is_none() {
        (0..n).map(|k| b.get_datum_definition(DatumId::from(k)).unwrap().details().offset()).collect()
    } else {
        vec![]
    };
    Outcome { clauses, out: outv, offsets, panicked }
}

/// Builds the pre-state of `case` through ordinary builder requests only (fillers appended with
/// `append_data`, then removed), runs the strategy under test through `close_record_variant_with`,
/// optionally the follow-up close, and checks every produced variant against C01/C02 and WF.
fn run_case_genuine(case: &Case, verbose: bool) -> (Vec<String>, Option<RecordDefinition<NativeDatumDetails>>) {
    let mut b = GenericRecordDefinitionBuilder::<NativeDatumDetails>::new();
    let mut fillers = Vec::new();
    let mut pre_ids = Vec::new();
    let mut cursor = 0usize;
    let mut k = 0usize;
    for p in &case.pre {
        while cursor < p.offset {
            fillers.push(b.add_datum(format!("filler{}", k), details(Shape { size: 1, align: 1 }, usize::MAX, k)).unwrap());
            k += 1;
            cursor += 1;
        }
        pre_ids.push(b.add_datum(format!("p{}", pre_ids.len()), details(p.shape, usize::MAX, k)).unwrap());
        k += 1;
        cursor = p.offset + p.shape.size;
    }
    b.close_record_variant_with(append_data);
    if !fillers.is_empty() {
        for f in &fillers {
            b.remove_datum(*f).unwrap();
        }
        b.close_record_variant_with(append_data);
    }
    let mut clauses = Vec::new();
    // the pre-state must be the one recorded
    for (i, p) in case.pre.iter().enumerate() {
        let off = b.get_datum_definition(pre_ids[i]).unwrap().details().offset();
        if off != p.offset {
            clauses.push(format!("replay-setup(datum p{} at {} instead of {})", i, off, p.offset));
        }
    }
    for i in &case.remove {
        b.remove_datum(pre_ids[*i]).unwrap();
    }
    for (i, s) in case.add.iter().enumerate() {
        b.add_datum(format!("a{}", i), details(*s, usize::MAX, k)).unwrap();
        k += 1;
    }
    let r = panic::catch_unwind(panic::AssertUnwindSafe(|| {
        b.close_record_variant_with(strategy_by_name(&case.strategy));
        if let Some((fname, fs)) = &case.followup {
            for (i, s) in fs.iter().enumerate() {
                b.add_datum(format!("f{}", i), details(*s, usize::MAX, k)).unwrap();
                k += 1;
            }
            b.close_record_variant_with(strategy_by_name(fname));
        }
    }));
    if let Err(e) = r {
        let msg = e.downcast_ref::<String>().cloned().unwrap_or_else(|| "panic".into());
        clauses.push(format!("panic({})", msg));
        return (clauses, None);
    }
    let def = b.build();
    clauses.extend(check_definition(&def, verbose));
    (clauses, Some(def))
}

/// property-level check of a finished definition: every variant WF / C01 / C02
fn check_definition(def: &RecordDefinition<NativeDatumDetails>, verbose: bool) -> Vec<String> {
    let mut clauses = Vec::new();
    // C13: rendering, capacity and alignment never panic
    for (what, r) in [
        ("to_string", panic::catch_unwind(panic::AssertUnwindSafe(|| { let _ = def.to_string(); }))),
        ("max_size", panic::catch_unwind(panic::AssertUnwindSafe(|| { let _ = def.max_size(); }))),
        ("max_type_align", panic::catch_unwind(panic::AssertUnwindSafe(|| { let _ = def.max_type_align(); }))),
    ] {
        if let Err(e) = r {
            let msg = e.downcast_ref::<String>().cloned().or_else(|| e.downcast_ref::<&str>().map(|s| s.to_string())).unwrap_or_default();
            clauses.push(format!("C13.panic({}: {})", what, msg));
        }
    }
    for v in def.variants() {
        let list: Vec<DatumId> = v.data().collect();
        if verbose {
            let txt: Vec<String> = list.iter().map(|d| {
                let dd = &def[*d];
                format!("{}@{}..{}", dd.name(), dd.details().offset(), dd.details().offset() + dd.details().size())
            }).collect();
            println!("  variant {}: [{}]", v.id(), txt.join(", "));
        }
        for i in 0..list.len() {
            let a = def[list[i]].details();
            if a.type_align() == 0 || a.offset() % a.type_align() != 0 {
                clauses.push(format!("variant {}: C02.aligned({})", v.id(), def[list[i]].name()));
            }
            for j in i + 1..list.len() {
                let b = def[list[j]].details();
                if a.offset() + a.size() > b.offset() {
                    clauses.push(format!("variant {}: wf.ordered({} then {})", v.id(), def[list[i]].name(), def[list[j]].name()));
                }
                if a.size() > 0 && b.size() > 0 {
                    if a.offset() < b.offset() + b.size() && b.offset() < a.offset() + a.size() {
                        clauses.push(format!("variant {}: C01.overlap({} [{}..{}) / {} [{}..{}))", v.id(),
                            def[list[i]].name(), a.offset(), a.offset() + a.size(),
                            def[list[j]].name(), b.offset(), b.offset() + b.size()));
                    }
                    if a.offset() >= b.offset() {
                        clauses.push(format!("variant {}: C02.order({} before {})", v.id(), def[list[i]].name(), def[list[j]].name()));
                    }
                }
            }
        }
    }
    clauses
}

fn case_to_json(c: &Case) -> Value {
    json!({
        "strategy": c.strategy,
        "pre": c.pre.iter().map(|p| json!({"size": p.shape.size, "align": p.shape.align, "offset": p.offset})).collect::<Vec<_>>(),
        "remove": c.remove,
        "add": c.add.iter().map(|s| json!({"size": s.size, "align": s.align})).collect::<Vec<_>>(),
        "followup": c.followup.as_ref().map(|(n, fs)| json!({"strategy": n, "add": fs.iter().map(|s| json!({"size": s.size, "align": s.align})).collect::<Vec<_>>()})),
    })
}

fn case_from_json(v: &Value) -> Case {
    let shape = |s: &Value| Shape { size: s["size"].as_u64().unwrap() as usize, align: s["align"].as_u64().unwrap() as usize };
    Case {
        strategy: v["strategy"].as_str().unwrap().to_owned(),
        pre: v["pre"].as_array().unwrap().iter().map(|p| Placed { shape: shape(p), offset: p["offset"].as_u64().unwrap() as usize }).collect(),
        remove: v["remove"].as_array().unwrap().iter().map(|i| i.as_u64().unwrap() as usize).collect(),
        add: v["add"].as_array().unwrap().iter().map(shape).collect(),
        followup: if v["followup"].is_null() { None } else {
            Some((v["followup"]["strategy"].as_str().unwrap().to_owned(), v["followup"]["add"].as_array().unwrap().iter().map(shape).collect()))
        },
    }
}

fn parse_shapes(s: &str) -> Vec<Shape> {
    s.split(',').map(|p| { let (a, b) = p.split_once(':').unwrap(); Shape { size: a.parse().unwrap(), align: b.parse().unwrap() } }).collect()
}

#[allow(dead_code)]
fn shapes(tier: &str) -> Vec<Shape> {
    let sizes: &[usize] = if tier == "thorough" { &[0, 1, 2, 3, 4, 8, 12, 16, 24] } else { &[0, 1, 2, 3, 4, 8, 12] };
    let aligns: &[usize] = if tier == "thorough" { &[1, 2, 4, 8, 16] } else { &[1, 2, 4, 8] };
    let mut v = Vec::new();
    for &s in sizes {
        for &a in aligns {
            // shapes a Rust type can have (size multiple of align) plus the "odd" ones the
            // property names (overrides allow any pair): keep size%align==0 or size<align*? all
            if s == 0 || s % a == 0 || a <= 4 {
                v.push(Shape { size: s, align: a });
            }
        }
    }
    v
}

fn gen_pre(shapes: &[Shape], window: usize, max: usize, cur: &mut Vec<Placed>, cursor: usize, f: &mut dyn FnMut(&[Placed])) {
    f(cur);
    if cur.len() == max {
        return;
    }
    for &sh in shapes {
        let mut o = (cursor + sh.align - 1) / sh.align * sh.align;
        while o + sh.size <= window {
            cur.push(Placed { shape: sh, offset: o });
            gen_pre(shapes, window, max, cur, o + sh.size, f);
            cur.pop();
            o += sh.align;
        }
    }
}

fn gen_add(shapes: &[Shape], max: usize, cur: &mut Vec<Shape>, f: &mut dyn FnMut(&[Shape])) {
    if !cur.is_empty() {
        f(cur);
    }
    if cur.len() == max {
        return;
    }
    for &sh in shapes {
        cur.push(sh);
        gen_add(shapes, max, cur, f);
        cur.pop();
    }
}

fn arg(args: &[String], name: &str) -> Option<String> {
    args.iter().position(|a| a == name).and_then(|i| args.get(i + 1).cloned())
}

fn main() {
    let args: Vec<String> = env::args().collect();
    if args.len() < 2 {
        eprintln!("usage: bx strategy|replay|history ...");
        exit(2);
    }
    panic::set_hook(Box::new(|_| {}));
    match args[1].as_str() {
        "strategy" => cmd_strategy(&args),
        "replay" => cmd_replay(&args),
        "builder-history" => cmd_builder_history(&args),
        "resolver" => cmd_resolver(&args),
        "convert" => cmd_convert(&args),
        "determinism" => cmd_determinism(&args),
        _ => {
            eprintln!("unknown command");
            exit(2)
        }
    }
}

fn cmd_replay(args: &[String]) {
    let text = fs::read_to_string(&args[2]).expect("replay file");
    let v: Value = serde_json::from_str(&text).expect("json");
    let c = if v.get("case").is_some() { &v["case"] } else { &v };
    if c.is_null() || c.get("strategy").is_none() {
        println!("replay file carries no concrete input (no-failing-input-found); failed obligation:");
        println!("{}", serde_json::to_string_pretty(&v["obligation"]).unwrap());
        exit(3);
    }
    let case = case_from_json(c);
    println!("replaying through ordinary builder requests: {}", case_to_json(&case));
    let (clauses, _) = run_case_genuine(&case, true);
    if clauses.is_empty() {
        println!("REPLAY: no clause violated on the current tree");
        exit(0);
    }
    for c in &clauses {
        println!("REPLAY: violated {}", c);
    }
    exit(1);
}

fn cmd_strategy(args: &[String]) {
    let name = arg(args, "--name").unwrap_or_else(|| "simple".into());
    let tier = arg(args, "--tier").unwrap_or_else(|| "quick".into());
    let max_data: usize = arg(args, "--max-data").map_or(3, |s| s.parse().unwrap());
    let max_add: usize = arg(args, "--max-add").map_or(2, |s| s.parse().unwrap());
    let window: usize = arg(args, "--window").map_or(16, |s| s.parse().unwrap());
    let followup = args.iter().any(|a| a == "--followup");
    let out_path = arg(args, "--out");
    let max_viol: usize = arg(args, "--max-violations").map_or(20, |s| s.parse().unwrap());
    let names: Vec<&str> = if name == "all" { STRATEGIES.to_vec() } else { vec![Box::leak(name.clone().into_boxed_str())] };
    let sh = parse_shapes(&arg(args, "--shapes").unwrap_or_else(|| "0:1,1:1,2:2,3:1,4:4,8:8,12:4,0:4".into()));
    let mut pres: Vec<Vec<Placed>> = Vec::new();
    gen_pre(&sh, window, max_data, &mut Vec::new(), 0, &mut |p| pres.push(p.to_vec()));
    let mut adds: Vec<Vec<Shape>> = Vec::new();
    gen_add(&sh, max_add, &mut Vec::new(), &mut |a| adds.push(a.to_vec()));
    let nthreads = std::thread::available_parallelism().map_or(4, |n| n.get());
    let chunk = (pres.len() + nthreads - 1) / nthreads.max(1);
    let t0 = std::time::Instant::now();
    let results: Vec<(u64, u64, Vec<(Case, Vec<String>)>, Vec<Value>, BTreeSet<String>)> = std::thread::scope(|scope| {
        let mut hs = Vec::new();
        for part in pres.chunks(chunk.max(1)) {
            let adds = &adds;
            let names = &names;
            let sh = &sh;
            hs.push(scope.spawn(move || {
                let mut evals = 0u64;
                let mut nontrivial = 0u64;
                let mut viol: Vec<(Case, Vec<String>)> = Vec::new();
                let mut samples = Vec::new();
                let mut sigs = BTreeSet::new();
                for pre in part {
                    for mask in 0..(1usize << pre.len()) {
                        let remove: Vec<usize> = (0..pre.len()).filter(|i| mask >> i & 1 == 1).collect();
                        for add in adds.iter() {
                            for nm in names.iter() {
                                let case = Case { strategy: nm.to_string(), pre: pre.clone(), remove: remove.clone(), add: add.clone(), followup: None };
                                let o = run_case_poked(&case);
                                evals += 1;
                                // non-trivial: at least one datum survives and at least one added
                                // datum was placed below the previous end (a gap was used) or the
                                // list had a hole
                                let survivors = pre.len() - remove.len();
                                let prev_end = pre.iter().enumerate().filter(|(i, _)| !remove.contains(i)).map(|(_, p)| p.offset + p.shape.size).max().unwrap_or(0);
                                let used_gap = o.panicked.is_none() && (pre.len()..pre.len() + add.len()).any(|k| o.offsets[k] < prev_end);
                                if survivors > 0 && used_gap {
                                    nontrivial += 1;
                                }
                                if samples.len() < 3 && survivors > 1 && used_gap && add.iter().all(|a| a.size > 0) && pre.iter().filter(|p| p.shape.size > 0).count() >= 2 {
                                    samples.push(json!({"case": case_to_json(&case), "out": o.out, "offsets": o.offsets}));
                                }
                                let mut clauses = o.clauses.clone();
                                if let Some(p) = &o.panicked {
                                    clauses.push(format!("panic({})", p));
                                }
                                if !clauses.is_empty() {
                                    let sig = format!("{}:{}", nm, clauses[0].split('(').next().unwrap());
                                    if viol.len() < max_viol || sigs.insert(sig.clone()) {
                                        sigs.insert(sig);
                                        viol.push((case.clone(), clauses));
                                    }
                                } else if followup {
                                    for fnm in STRATEGIES.iter() {
                                        for fs in sh.iter() {
                                            let c2 = Case { followup: Some((fnm.to_string(), vec![*fs])), ..case.clone() };
                                            let o2 = run_case_poked(&c2);
                                            evals += 1;
                                            let mut cl = o2.clauses.clone();
                                            if let Some(p) = &o2.panicked { cl.push(format!("panic({})", p)); }
                                            if !cl.is_empty() && viol.len() < max_viol {
                                                viol.push((c2, cl));
                                            }
                                        }
                                    }
                                }
                            }
                        }
                    }
                }
                (evals, nontrivial, viol, samples, sigs)
            }));
        }
        hs.into_iter().map(|h| h.join().unwrap()).collect()
    });
    let mut evals = 0;
    let mut nontrivial = 0;
    let mut viol = Vec::new();
    let mut samples = Vec::new();
    for (e, n, v, s, _) in results {
        evals += e;
        nontrivial += n;
        viol.extend(v);
        if samples.len() < 3 { samples.extend(s); }
    }
    samples.truncate(3);
    // minimal counterexamples first
    viol.sort_by_key(|(c, _)| (c.pre.len() + c.add.len() + c.followup.as_ref().map_or(0, |f| f.1.len()), c.remove.len()));
    // try to turn invariant-only violations (zero-size ordering) into property-level ones
    let mut reported = Vec::new();
    for (c, clauses) in viol.iter().take(max_viol) {
        let mut best: Option<(Case, Vec<String>)> = None;
        let property_level = |cl: &Vec<String>| cl.iter().any(|x| x.contains("C01") || x.contains("C02") || x.contains("panic") || x.contains("aligned") || x.contains("members") || x.contains("frame"));
        if !property_level(clauses) && c.followup.is_none() {
            'search: for fnm in STRATEGIES.iter() {
                for fs in sh.iter() {
                    let c2 = Case { followup: Some((fnm.to_string(), vec![*fs])), ..c.clone() };
                    let o2 = run_case_poked(&c2);
                    let mut cl = o2.clauses.clone();
                    if let Some(p) = &o2.panicked { cl.push(format!("panic({})", p)); }
                    if property_level(&cl) {
                        best = Some((c2, cl));
                        break 'search;
                    }
                }
            }
        }
        let (cc, cl) = best.unwrap_or_else(|| (c.clone(), clauses.clone()));
        // confirm through ordinary requests
        let (genuine, _) = run_case_genuine(&cc, false);
        reported.push(json!({"case": case_to_json(&cc), "clauses": cl, "confirmed_through_public_api": genuine}));
    }
    let res = json!({
        "strategies": names,
        "tier": tier,
        "bounds": {"max_data": max_data, "max_add": max_add, "window": window, "shapes": sh.iter().map(|s| json!([s.size, s.align])).collect::<Vec<_>>(), "removal_subsets": "all"},
        "prestates": pres.len(),
        "additions": adds.len(),
        "evaluations": evals,
        "distinct_nontrivial": nontrivial,
        "rule": "every WF pre-state within the window x every removal subset x every sequence of additions; non-trivial = a datum survives and an added datum was placed below the previous end (a gap was filled)",
        "exhaustive": true,
        "violations": reported,
        "violations_total": viol.len(),
        "samples": samples,
        "wall_s": t0.elapsed().as_secs_f64(),
    });
    let text = serde_json::to_string_pretty(&res).unwrap();
    if let Some(p) = out_path {
        fs::write(p, &text).unwrap();
    } else {
        println!("{}", text);
    }
    exit(if viol.is_empty() { 0 } else { 1 });
}


// ---------------------------------------------------------------------------------------------
// Counterexample finder for the builder unit (C12): short request sequences against the real
// generic builder, compared with the property's own set algebra.  Used only to attach a concrete
// history to a failed Verus obligation; it decides nothing.

#[derive(Clone, Debug, PartialEq)]
enum Req {
    Add(usize),    // name index
    Remove(usize), // datum id (may be unknown)
    Close,         // generic append_data
    CloseRev,      // generic append_data_reverse
}

const NAMES: [&str; 3] = ["a", "b", "c"];

#[derive(Clone, Default)]
struct Model {
    names: Vec<usize>, // by id
    variants: Vec<Vec<usize>>,
    to_add: Vec<usize>,
    to_remove: Vec<usize>,
}

impl Model {
    fn current(&self) -> Vec<usize> {
        let mut v: Vec<usize> = self.variants.last().map(|l| l.iter().cloned().filter(|d| !self.to_remove.contains(d)).collect()).unwrap_or_default();
        v.extend(self.to_add.iter().cloned());
        v
    }
}

fn run_history(h: &[Req], verbose: bool) -> Vec<String> {
    use truc::record::definition::builder::generic::variant::{append_data as g_append, append_data_reverse as g_append_rev};
    use truc::record::definition::RecordVariantId;
    let mut b = GenericRecordDefinitionBuilder::<()>::new();
    let mut m = Model::default();
    let mut out = Vec::new();
    for (step, r) in h.iter().enumerate() {
        match r {
            Req::Add(n) => {
                let clash = m.current().iter().any(|d| m.names[*d] == *n);
                let res = b.add_datum(NAMES[*n], ());
                if verbose { println!("  add {:?} -> {:?}", NAMES[*n], res.as_ref().map(|d| idx(*d)).map_err(|_| "Err")); }
                match res {
                    Err(_) => if !clash { out.push(format!("step {}: add of a fresh name rejected", step)); },
                    Ok(id) => {
                        if clash { out.push(format!("step {}: add of a clashing name accepted", step)); }
                        if idx(id) != m.names.len() { out.push(format!("step {}: C12 identifier {} handed out, expected fresh id {}", step, idx(id), m.names.len())); }
                        m.names.push(*n);
                        m.to_add.push(m.names.len() - 1);
                        if idx(id) != m.names.len() - 1 { return out; }
                    }
                }
            }
            Req::Remove(id) => {
                let in_last = m.variants.last().map_or(false, |l| l.contains(id));
                let expect_ok = if in_last { !m.to_remove.contains(id) } else { m.to_add.contains(id) };
                let res = b.remove_datum(DatumId::from(*id));
                if verbose { println!("  remove {} -> {}", id, if res.is_ok() { "Ok" } else { "Err" }); }
                if res.is_ok() != expect_ok {
                    out.push(format!("step {}: C12 remove_datum({}) returned {} but the request is {}", step, id, if res.is_ok() { "Ok" } else { "Err" }, if expect_ok { "valid" } else { "invalid (absent, stale or already removed)" }));
                }
                if expect_ok {
                    if in_last { m.to_remove.push(*id); } else { m.to_add.retain(|d| d != id); }
                }
            }
            Req::Close | Req::CloseRev => {
                let rev = *r == Req::CloseRev;
                let pending = m.variants.is_empty() || !m.to_add.is_empty() || !m.to_remove.is_empty();
                let res = if rev { b.close_record_variant_with(g_append_rev) } else { b.close_record_variant_with(g_append) };
                if verbose { println!("  close ({}) -> variant {}", if rev { "append_data_reverse" } else { "append_data" }, res); }
                if pending {
                    if rev { m.to_add.reverse(); }
                    let cur = m.current();
                    m.variants.push(cur);
                    m.to_add.clear();
                    m.to_remove.clear();
                }
                let want = m.variants.len() - 1;
                if format!("{}", res) != format!("{}", want) {
                    out.push(format!("step {}: C12 close returned variant {} expected {}", step, res, want));
                }
            }
        }
        // observable state
        let cur: Vec<usize> = b.get_current_data().map(idx).collect();
        if cur != m.current() {
            out.push(format!("step {}: C12 current data {:?}, expected {:?} (last - removed + added)", step, cur, m.current()));
        }
        let mut v = 0;
        while let Some(var) = b.get_variant(RecordVariantId::from(v)) {
            let got: Vec<usize> = var.data().map(idx).collect();
            if v >= m.variants.len() || got != m.variants[v] {
                out.push(format!("step {}: C12 variant {} is {:?}, expected {:?}", step, v, got, m.variants.get(v)));
            }
            v += 1;
        }
        if v != m.variants.len() {
            out.push(format!("step {}: C12 {} variants, expected {}", step, v, m.variants.len()));
        }
        for d in 0..m.names.len() {
            match b.get_datum_definition(DatumId::from(d)) {
                Some(def) if def.name() == NAMES[m.names[d]] && idx(def.id()) == d => {}
                _ => out.push(format!("step {}: C12 datum {} no longer carries its identity (id/name)", step, d)),
            }
        }
        for (n, name) in NAMES.iter().enumerate() {
            let want = m.current().iter().any(|d| m.names[*d] == n);
            if b.get_current_datum_definition_by_name(name).is_some() != want {
                out.push(format!("step {}: C12 lookup of {:?} in the current variant disagrees", step, name));
            }
        }
        if !out.is_empty() {
            return out;
        }
    }
    // finishing: `build` is rejected (panics) exactly when changes are pending; otherwise the definition
    // holds the closed variants
    let pending = !m.to_add.is_empty() || !m.to_remove.is_empty();
    let built = std::panic::catch_unwind(std::panic::AssertUnwindSafe(move || b.build()));
    if verbose { println!("  build -> {}", if built.is_ok() { "definition" } else { "rejected (panic)" }); }
    match built {
        Err(_) => if !pending { out.push("finish: C12 build rejected although no change is pending".to_owned()); },
        Ok(def) => {
            if pending {
                out.push("finish: C12 build accepted with unclosed changes (finishing with unclosed changes must be rejected)".to_owned());
            }
            let got: Vec<Vec<usize>> = def.variants().map(|v| v.data().map(idx).collect()).collect();
            if got != m.variants {
                out.push(format!("finish: C12 built definition has variants {:?}, expected {:?}", got, m.variants));
            }
        }
    }
    out
}

fn req_to_json(r: &Req) -> Value {
    match r { Req::Add(n) => json!({"add": NAMES[*n]}), Req::Remove(d) => json!({"remove": d}), Req::Close => json!("close"), Req::CloseRev => json!("close_reverse") }
}

fn req_from_json(v: &Value) -> Req {
    if v == "close" { Req::Close } else if v == "close_reverse" { Req::CloseRev } else if let Some(n) = v.get("add") { Req::Add(NAMES.iter().position(|x| *x == n.as_str().unwrap()).unwrap()) } else { Req::Remove(v["remove"].as_u64().unwrap() as usize) }
}

fn cmd_builder_history(args: &[String]) {
    if let Some(p) = arg(args, "--replay") {
        let v: Value = serde_json::from_str(&fs::read_to_string(p).unwrap()).unwrap();
        let h: Vec<Req> = v["history"].as_array().unwrap().iter().map(req_from_json).collect();
        println!("replaying builder history through the public API:");
        let o = run_history(&h, true);
        for c in &o { println!("REPLAY: violated {}", c); }
        if o.is_empty() { println!("REPLAY: no clause violated on the current tree"); }
        exit(if o.is_empty() { 0 } else { 1 });
    }
    let maxlen: usize = arg(args, "--max-len").map_or(6, |s| s.parse().unwrap());
    let mut alphabet = vec![Req::Close, Req::CloseRev];
    for n in 0..NAMES.len() { alphabet.push(Req::Add(n)); }
    for d in 0..4 { alphabet.push(Req::Remove(d)); }
    let mut best: Option<(Vec<Req>, Vec<String>)> = None;
    let mut count = 0u64;
    let mut stack: Vec<Vec<Req>> = vec![vec![]];
    // breadth-first: shortest failing history first
    let mut frontier: Vec<Vec<Req>> = vec![vec![]];
    'outer: for _len in 1..=maxlen {
        let mut next = Vec::new();
        for h in &frontier {
            for r in &alphabet {
                let mut h2 = h.clone();
                h2.push(r.clone());
                count += 1;
                let o = run_history(&h2, false);
                if !o.is_empty() {
                    best = Some((h2, o));
                    break 'outer;
                }
                next.push(h2);
            }
        }
        frontier = next;
    }
    stack.clear();
    let res = json!({"evaluations": count, "max_len": maxlen,
        "violation": best.as_ref().map(|(h, o)| json!({"history": h.iter().map(req_to_json).collect::<Vec<_>>(), "clauses": o}))});
    println!("{}", serde_json::to_string_pretty(&res).unwrap());
    exit(if best.is_some() { 1 } else { 0 });
}

// ---------------------------------------------------------------------------------------------
// Counterexample finder for unit native (C18): every entry point under a synthetic resolver whose
// answers differ from the host's.

struct Synth;
impl truc::record::type_resolver::TypeResolver for Synth {
    fn type_info<T>(&self) -> TypeInfo {
        TypeInfo { name: format!("synth::{}", std::any::type_name::<T>()), size: std::mem::size_of::<T>() * 3 + 5, align: std::mem::align_of::<T>() * 2 }
    }
    fn dynamic_type_info(&self, type_name: &str) -> truc::record::type_resolver::DynamicTypeInfo {
        truc::record::type_resolver::DynamicTypeInfo { info: TypeInfo { name: format!("dyn::{}", type_name), size: type_name.len() * 7 + 3, align: 2 }, allow_uninit: type_name.len() % 2 == 0 }
    }
}

fn cmd_resolver(_args: &[String]) {
    use truc::record::definition::builder::native::{DatumDefinitionOverride, NativeRecordDefinitionBuilder};
    use truc::record::type_resolver::TypeResolver;
    let mut out: Vec<String> = Vec::new();
    let mut b = NativeRecordDefinitionBuilder::new(Synth);
    let mut check = |what: &str, got: &NativeDatumDetails, name: &str, size: usize, align: usize, uninit: bool| {
        if got.offset() != usize::MAX { out.push(format!("C18 {}: offset recorded before close is not the sentinel", what)); }
        if got.type_name() != name { out.push(format!("C18 {}: recorded type name {:?}, resolver/override says {:?}", what, got.type_name(), name)); }
        if got.size() != size { out.push(format!("C18 {}: recorded size {}, resolver/override says {}", what, got.size(), size)); }
        if got.type_align() != align { out.push(format!("C18 {}: recorded alignment {}, resolver/override says {}", what, got.type_align(), align)); }
        if got.allow_uninit() != uninit { out.push(format!("C18 {}: recorded allow_uninit {}, expected {}", what, got.allow_uninit(), uninit)); }
    };
    let r = Synth.type_info::<u32>();
    let id = b.add_datum::<u32, _>("f0").unwrap();
    check("add_datum::<u32>", b[id].details(), &r.name, r.size, r.align, false);
    let r = Synth.type_info::<(u64, u8)>();
    let id = b.add_datum_allow_uninit::<(u64, u8), _>("f1").unwrap();
    check("add_datum_allow_uninit::<(u64,u8)>", b[id].details(), &r.name, r.size, r.align, true);
    let d = Synth.dynamic_type_info("abc");
    let id = b.add_dynamic_datum("f2", "abc").unwrap();
    check("add_dynamic_datum(\"abc\")", b[id].details(), &d.info.name, d.info.size, d.info.align, d.allow_uninit);
    let mut k = 3;
    for mask in 0..16u32 {
        let r = Synth.type_info::<Vec<()>>();
        let ov = DatumDefinitionOverride {
            type_name: if mask & 1 != 0 { Some("Over".to_owned()) } else { None },
            size: if mask & 2 != 0 { Some(11) } else { None },
            align: if mask & 4 != 0 { Some(32) } else { None },
            allow_uninit: if mask & 8 != 0 { Some(true) } else { None },
        };
        let id = b.add_datum_override::<Vec<()>, _>(format!("f{}", k), ov).unwrap();
        k += 1;
        check(&format!("add_datum_override::<Vec<()>>(type_name:{} size:{} align:{} allow_uninit:{})", mask & 1 != 0, mask & 2 != 0, mask & 4 != 0, mask & 8 != 0),
            b[id].details(), if mask & 1 != 0 { "Over" } else { &r.name }, if mask & 2 != 0 { 11 } else { r.size }, if mask & 4 != 0 { 32 } else { r.align }, mask & 8 != 0);
    }
    // the typed entry points over a matrix of types (plain, compound, heap-owning, odd-sized, over-aligned,
    // zero-size with alignment 1 / 8 / 16): the recorded information is the resolver's answer, never the host's
    let mut evaluations = 3 + 16;
    macro_rules! typed {
        ($($t:ty),*) => {$(
            let r = Synth.type_info::<$t>();
            let id = b.add_datum::<$t, _>(format!("f{}", k)).unwrap();
            k += 1;
            check(concat!("add_datum::<", stringify!($t), ">"), b[id].details(), &r.name, r.size, r.align, false);
            for mask in [0u32, 2, 4, 6] {
                let ov = DatumDefinitionOverride { type_name: None, size: if mask & 2 != 0 { Some(11) } else { None }, align: if mask & 4 != 0 { Some(32) } else { None }, allow_uninit: None };
                let id = b.add_datum_override::<$t, _>(format!("f{}", k), ov).unwrap();
                k += 1;
                check(&format!("add_datum_override::<{}>(size:{} align:{})", stringify!($t), mask & 2 != 0, mask & 4 != 0),
                    b[id].details(), &r.name, if mask & 2 != 0 { 11 } else { r.size }, if mask & 4 != 0 { 32 } else { r.align }, false);
            }
            evaluations += 5;
        )*};
    }
    macro_rules! typed_copy {
        ($($t:ty),*) => {$(
            let r = Synth.type_info::<$t>();
            let id = b.add_datum_allow_uninit::<$t, _>(format!("f{}", k)).unwrap();
            k += 1;
            check(concat!("add_datum_allow_uninit::<", stringify!($t), ">"), b[id].details(), &r.name, r.size, r.align, true);
            evaluations += 1;
        )*};
    }
    typed!(u8, u64, u128, [u8; 3], (u64, u8), String, Vec<u32>, Box<[u8]>, Option<String>, (), [u64; 0], [u128; 0], std::marker::PhantomData<u128>, std::marker::PhantomData<String>);
    typed_copy!(u8, u64, u128, [u8; 3], (u64, u8), (), [u64; 0], [u128; 0], std::marker::PhantomData<u128>);
    // copy_datum copies what was recorded, it does not resolve again
    let mut other = NativeRecordDefinitionBuilder::new(truc::record::type_resolver::HostTypeResolver);
    let vid = b.close_record_variant_with(append_data);
    let src = b.get_variant_datum_definition_by_name(vid, "f1").map(|d| (d.details().type_name().to_owned(), d.details().size(), d.details().type_align(), d.details().allow_uninit()));
    let def = b.build();
    let f1 = def.datum_definitions().find(|d| d.name() == "f1").unwrap();
    let id = other.copy_datum(f1).unwrap();
    let (n, s, a, u) = src.unwrap();
    check("copy_datum", other[id].details(), &n, s, a, u);
    evaluations += 1;
    let res = json!({"violations": out, "evaluations": evaluations});
    println!("{}", serde_json::to_string_pretty(&res).unwrap());
    for c in &out { println!("REPLAY: violated {}", c); }
    exit(if out.is_empty() { 0 } else { 1 });
}


// ---------------------------------------------------------------------------------------------
// C20: bounded stand-in for `convert_record_definition` (closure parameters, impl Iterator returns,
// retain, two BTreeMaps: Verus rejects it, Kani did not terminate).  Every source definition built by
// a request sequence of bounded length is replayed through the real helper into a native builder
// (two strategies) and into a generic builder; the helper's postcondition is checked on each.

#[derive(Clone, Debug, PartialEq)]
enum SrcReq {
    Add(usize, usize), // name index, shape index
    Remove(usize),
    Close(usize), // strategy index
}

const CSHAPES: [(usize, usize); 3] = [(1, 1), (4, 4), (0, 1)];

fn build_source(h: &[SrcReq]) -> Option<RecordDefinition<NativeDatumDetails>> {
    let mut b = GenericRecordDefinitionBuilder::<NativeDatumDetails>::new();
    let mut k = 0;
    for r in h {
        match r {
            SrcReq::Add(n, sh) => {
                let (size, align) = CSHAPES[*sh];
                if b.add_datum(NAMES[*n], NativeDatumDetails::new(usize::MAX, TypeInfo { name: format!("T{}_{}", size, align), size, align }, *sh == 0)).is_err() {
                    return None;
                }
                k += 1;
            }
            SrcReq::Remove(id) => {
                if *id >= k || b.remove_datum(DatumId::from(*id)).is_err() {
                    return None;
                }
            }
            SrcReq::Close(s) => {
                b.close_record_variant_with(strategy_by_name(if *s == 0 { "simple" } else { "basic" }));
            }
        }
    }
    // only closed histories give a definition
    match h.last() {
        Some(SrcReq::Close(_)) => Some(b.build()),
        _ => None,
    }
}

fn check_conversion(src: &RecordDefinition<NativeDatumDetails>, target: usize) -> Vec<String> {
    use std::collections::BTreeMap;
    use truc::record::definition::builder::native::NativeRecordDefinitionBuilder;
    use truc::record::definition::convert::convert_record_definition;
    use truc::record::definition::RecordVariantId;
    use truc::record::type_resolver::HostTypeResolver;
    let mut out = Vec::new();
    // (variant id -> [(name, type name, size, align, uninit, target datum id)]) of the target
    let mut tgt_variants: Vec<(String, Vec<(String, Option<(String, usize, usize, bool)>, usize)>)> = Vec::new();
    let map: Result<BTreeMap<RecordVariantId, RecordVariantId>, String>;
    if target < 2 {
        let mut nb = NativeRecordDefinitionBuilder::new(HostTypeResolver);
        map = convert_record_definition(
            src,
            |b: &mut NativeRecordDefinitionBuilder<HostTypeResolver>, d| b.copy_datum(d),
            |b: &mut NativeRecordDefinitionBuilder<HostTypeResolver>, id| b.remove_datum(id),
            |b: &mut NativeRecordDefinitionBuilder<HostTypeResolver>| if target == 0 { b.close_record_variant_with(simple) } else { b.close_record_variant_with(append_data) },
            &mut nb,
        );
        let def = nb.build();
        for v in def.variants() {
            tgt_variants.push((format!("{}", v.id()), v.data().map(|d| {
                let dd = &def[d];
                (dd.name().to_owned(), Some((dd.details().type_name().to_owned(), dd.details().size(), dd.details().type_align(), dd.details().allow_uninit())), idx(d))
            }).collect()));
        }
    } else {
        use truc::record::definition::builder::generic::variant::append_data as g_append;
        let mut gb = GenericRecordDefinitionBuilder::<()>::new();
        map = convert_record_definition(
            src,
            |b: &mut GenericRecordDefinitionBuilder<()>, d| b.add_datum(d.name(), ()),
            |b: &mut GenericRecordDefinitionBuilder<()>, id| b.remove_datum(id),
            |b: &mut GenericRecordDefinitionBuilder<()>| b.close_record_variant_with(g_append),
            &mut gb,
        );
        let def = gb.build();
        for v in def.variants() {
            tgt_variants.push((format!("{}", v.id()), v.data().map(|d| (def[d].name().to_owned(), None, idx(d))).collect()));
        }
    }
    let map = match map {
        Ok(m) => m,
        Err(e) => {
            out.push(format!("C20: the replay of an accepted definition failed: {}", e));
            return out;
        }
    };
    let nsrc = src.variants().count();
    if tgt_variants.len() != nsrc {
        out.push(format!("C20: {} source variants replayed into {} target variants", nsrc, tgt_variants.len()));
    }
    if map.len() != nsrc {
        out.push(format!("C20: the returned map has {} entries for {} source variants", map.len(), nsrc));
    }
    // source datum id -> target datum id, must be a function and injective
    let mut d_map: BTreeMap<usize, usize> = BTreeMap::new();
    let mut seen_targets = BTreeSet::new();
    for v in src.variants() {
        let tv = match map.get(&v.id()) {
            Some(t) => format!("{}", t),
            None => { out.push(format!("C20: source variant {} is not in the map", v.id())); continue; }
        };
        if !seen_targets.insert(tv.clone()) {
            out.push(format!("C20: two source variants are paired with target variant {}", tv));
        }
        let tdata = match tgt_variants.iter().find(|(id, _)| *id == tv) {
            Some((_, d)) => d,
            None => { out.push(format!("C20: the map names a target variant {} that does not exist", tv)); continue; }
        };
        let sdata: Vec<DatumId> = v.data().collect();
        if sdata.len() != tdata.len() {
            out.push(format!("C20: source variant {} has {} data, its target {} has {}", v.id(), sdata.len(), tv, tdata.len()));
        }
        for d in &sdata {
            let sd = &src[*d];
            match tdata.iter().find(|(n, _, _)| n == sd.name()) {
                None => out.push(format!("C20: datum {:?} of source variant {} has no namesake in target variant {}", sd.name(), v.id(), tv)),
                Some((_, info, tid)) => {
                    if let Some((tn, size, align, uninit)) = info {
                        if tn != sd.details().type_name() || *size != sd.details().size() || *align != sd.details().type_align() || *uninit != sd.details().allow_uninit() {
                            out.push(format!("C20: datum {:?}: type information differs after the replay", sd.name()));
                        }
                    }
                    match d_map.get(&idx(*d)) {
                        Some(prev) if prev != tid => out.push(format!("C20: source datum {} corresponds to target data {} and {} in different variants", idx(*d), prev, tid)),
                        _ => { d_map.insert(idx(*d), *tid); }
                    }
                }
            }
        }
    }
    let distinct: BTreeSet<usize> = d_map.values().cloned().collect();
    if distinct.len() != d_map.len() {
        out.push("C20: two source data correspond to the same target datum".to_owned());
    }
    out
}

fn src_to_json(r: &SrcReq) -> Value {
    match r { SrcReq::Add(n, s) => json!({"add": NAMES[*n], "shape": [CSHAPES[*s].0, CSHAPES[*s].1]}), SrcReq::Remove(d) => json!({"remove": d}), SrcReq::Close(s) => json!({"close": if *s == 0 { "simple" } else { "basic" }}) }
}

fn src_from_json(v: &Value) -> SrcReq {
    if let Some(n) = v.get("add") {
        let sh = CSHAPES.iter().position(|s| s.0 as u64 == v["shape"][0].as_u64().unwrap() && s.1 as u64 == v["shape"][1].as_u64().unwrap()).unwrap();
        SrcReq::Add(NAMES.iter().position(|x| *x == n.as_str().unwrap()).unwrap(), sh)
    } else if let Some(d) = v.get("remove") {
        SrcReq::Remove(d.as_u64().unwrap() as usize)
    } else {
        SrcReq::Close(if v["close"] == "simple" { 0 } else { 1 })
    }
}

fn cmd_convert(args: &[String]) {
    if let Some(p) = arg(args, "--replay") {
        let v: Value = serde_json::from_str(&fs::read_to_string(p).unwrap()).unwrap();
        let h: Vec<SrcReq> = v["history"].as_array().unwrap().iter().map(src_from_json).collect();
        let target = v["target"].as_u64().unwrap() as usize;
        println!("replaying: source definition from {} requests, target {}", h.len(), ["native/simple", "native/append_data", "generic"][target]);
        let src = build_source(&h).expect("source history");
        println!("{}", src);
        let o = panic::catch_unwind(panic::AssertUnwindSafe(|| check_conversion(&src, target))).unwrap_or_else(|_| vec!["C20: the replay panicked".to_owned()]);
        for c in &o { println!("REPLAY: violated {}", c); }
        if o.is_empty() { println!("REPLAY: no clause violated on the current tree"); }
        exit(if o.is_empty() { 0 } else { 1 });
    }
    let maxlen: usize = arg(args, "--max-len").map_or(5, |s| s.parse().unwrap());
    let mut alphabet = Vec::new();
    for n in 0..NAMES.len() { for s in 0..CSHAPES.len() { alphabet.push(SrcReq::Add(n, s)); } }
    for d in 0..3 { alphabet.push(SrcReq::Remove(d)); }
    alphabet.push(SrcReq::Close(0));
    alphabet.push(SrcReq::Close(1));
    let mut sources = 0u64;
    let mut conversions = 0u64;
    let mut multi = 0u64;
    let mut best: Option<(Vec<SrcReq>, usize, Vec<String>)> = None;
    let mut frontier: Vec<Vec<SrcReq>> = vec![vec![]];
    let mut sample: Option<Value> = None;
    'outer: for _len in 1..=maxlen {
        let mut next = Vec::new();
        for h in &frontier {
            for r in &alphabet {
                // prune: no two closes in a row (the second is a no-op), removals of unknown ids
                if let (Some(SrcReq::Close(_)), SrcReq::Close(_)) = (h.last(), r) { continue; }
                let mut h2 = h.clone();
                h2.push(r.clone());
                if let SrcReq::Close(_) = r {
                    if let Some(src) = build_source(&h2) {
                        sources += 1;
                        let nv = src.variants().count();
                        if nv > 1 { multi += 1; }
                        for target in 0..3 {
                            conversions += 1;
                            let o = panic::catch_unwind(panic::AssertUnwindSafe(|| check_conversion(&src, target))).unwrap_or_else(|_| vec!["C20: the replay panicked".to_owned()]);
                            if !o.is_empty() {
                                best = Some((h2.clone(), target, o));
                                break 'outer;
                            }
                        }
                        if sample.is_none() && nv == 2 && src.datum_definitions().count() >= 2 {
                            sample = Some(json!({"history": h2.iter().map(src_to_json).collect::<Vec<_>>(), "definition": src.to_string()}));
                        }
                    } else {
                        continue;
                    }
                }
                // invalid requests end a history
                let valid = { let mut probe = h2.clone(); probe.push(SrcReq::Close(0)); build_source(&probe).is_some() || matches!(r, SrcReq::Close(_)) };
                if valid { next.push(h2); }
            }
        }
        frontier = next;
    }
    let res = json!({"sources": sources, "conversions": conversions, "multi_variant_sources": multi, "max_len": maxlen, "sample": sample,
        "violation": best.as_ref().map(|(h, t, o)| json!({"history": h.iter().map(src_to_json).collect::<Vec<_>>(), "target": t, "clauses": o}))});
    println!("{}", serde_json::to_string_pretty(&res).unwrap());
    exit(if best.is_some() { 1 } else { 0 });
}




// ---------------------------------------------------------------------------------------------
// C19: bounded stand-in.  Determinism relates two executions; the functions involved (simple(),
// generate(): string emission through codegen / format! / itertools) are outside both verifiers.
// Every definition history within the bound is replayed TWICE in this process (fresh builders) and
// its offsets and generated text (three fragment selections) must be identical; the digest over all
// of them is printed so that the caller can compare two separately started processes.

fn fnv(h: &mut u64, bytes: &[u8]) {
    for b in bytes {
        *h ^= *b as u64;
        *h = h.wrapping_mul(0x100000001b3);
    }
}

fn generate_all(def: &RecordDefinition<NativeDatumDetails>) -> Vec<String> {
    use truc::generator::{config::GeneratorConfig, fragment::{clone::CloneImplGenerator, serde::SerdeImplGenerator, FragmentGenerator}, generate};
    vec![
        generate(def, &GeneratorConfig::default()),
        generate(def, &GeneratorConfig::default_with_custom_generators([Box::new(CloneImplGenerator) as Box<dyn FragmentGenerator>])),
        generate(def, &GeneratorConfig::default_with_custom_generators([Box::new(CloneImplGenerator) as Box<dyn FragmentGenerator>, Box::new(SerdeImplGenerator) as Box<dyn FragmentGenerator>])),
    ]
}

fn cmd_determinism(args: &[String]) {
    let maxlen: usize = arg(args, "--max-len").map_or(5, |s| s.parse().unwrap());
    let mut alphabet = Vec::new();
    for n in 0..NAMES.len() { for s in 0..CSHAPES.len() { alphabet.push(SrcReq::Add(n, s)); } }
    for d in 0..3 { alphabet.push(SrcReq::Remove(d)); }
    alphabet.push(SrcReq::Close(0));
    alphabet.push(SrcReq::Close(1));
    let mut digest: u64 = 0xcbf29ce484222325;
    let mut histories = 0u64;
    let mut texts = 0u64;
    let mut violation: Option<Value> = None;
    let mut sample: Option<Value> = None;
    let mut frontier: Vec<Vec<SrcReq>> = vec![vec![]];
    'outer: for _len in 1..=maxlen {
        let mut next = Vec::new();
        for h in &frontier {
            for r in &alphabet {
                if let (Some(SrcReq::Close(_)), SrcReq::Close(_)) = (h.last(), r) { continue; }
                let mut h2 = h.clone();
                h2.push(r.clone());
                if let SrcReq::Close(_) = r {
                    let (a, b) = (build_source(&h2), build_source(&h2));
                    if let (Some(a), Some(b)) = (a, b) {
                        histories += 1;
                        let oa: Vec<usize> = a.datum_definitions().map(|d| d.details().offset()).collect();
                        let ob: Vec<usize> = b.datum_definitions().map(|d| d.details().offset()).collect();
                        let (ta, tb) = (generate_all(&a), generate_all(&b));
                        texts += ta.len() as u64;
                        if oa != ob || ta != tb || a.to_string() != b.to_string() {
                            violation = Some(json!({"history": h2.iter().map(src_to_json).collect::<Vec<_>>(), "clauses": ["C19: the same request sequence replayed twice in one process gives different offsets or different generated text"]}));
                            break 'outer;
                        }
                        for o in &oa { fnv(&mut digest, &o.to_le_bytes()); }
                        for t in &ta { fnv(&mut digest, t.as_bytes()); }
                        if sample.is_none() && a.variants().count() == 2 {
                            sample = Some(json!({"history": h2.iter().map(src_to_json).collect::<Vec<_>>(), "generated_bytes": ta.iter().map(|t| t.len()).collect::<Vec<_>>()}));
                        }
                    } else {
                        continue;
                    }
                }
                let valid = { let mut probe = h2.clone(); probe.push(SrcReq::Close(0)); build_source(&probe).is_some() || matches!(r, SrcReq::Close(_)) };
                if valid { next.push(h2); }
            }
        }
        frontier = next;
    }
    // wide variants (seed S_q19: a tie-break that only acts on more than four equal-size additions
    // in one variant): 5..=12 additions per variant, which the length bound above never reaches
    let mut wide = 0u64;
    if violation.is_none() {
        'wide: for k in 5..=12usize {
            for pat in 0..WIDE_SHAPES.len() + 3 {
                for s in 0..2usize {
                    for second in 0..2usize {
                        let (a, b) = (build_wide(k, pat, s, second), build_wide(k, pat, s, second));
                        histories += 1;
                        wide += 1;
                        let oa: Vec<usize> = a.datum_definitions().map(|d| d.details().offset()).collect();
                        let ob: Vec<usize> = b.datum_definitions().map(|d| d.details().offset()).collect();
                        let (ta, tb) = (generate_all(&a), generate_all(&b));
                        texts += ta.len() as u64;
                        if oa != ob || ta != tb || a.to_string() != b.to_string() {
                            violation = Some(json!({"wide_history": {"additions_per_variant": k, "shape_pattern": pat, "strategy": if s == 0 { "simple" } else { "basic" }, "second_variant": second == 1},
                                "offsets_first": oa, "offsets_second": ob,
                                "clauses": ["C19: the same request sequence replayed twice in one process gives different offsets or different generated text"]}));
                            break 'wide;
                        }
                        for o in &oa { fnv(&mut digest, &o.to_le_bytes()); }
                        for t in &ta { fnv(&mut digest, t.as_bytes()); }
                    }
                }
            }
        }
    }
    let res = json!({"histories": histories, "wide_histories": wide, "texts": texts, "max_len": maxlen, "digest": format!("{:016x}", digest), "violation": violation, "sample": sample});
    println!("{}", serde_json::to_string_pretty(&res).unwrap());
    exit(if violation.is_some() { 1 } else { 0 });
}

const WIDE_SHAPES: [(usize, usize); 7] = [(1, 1), (2, 2), (4, 4), (8, 8), (0, 1), (4, 1), (16, 8)];

/// `k` additions in one variant (pattern < 7: all of one shape; otherwise shapes cycling with a
/// stride), closed with strategy `s`; optionally a second variant that removes every third datum
/// and adds `k` more of the same pattern.
fn build_wide(k: usize, pat: usize, s: usize, second: usize) -> RecordDefinition<NativeDatumDetails> {
    let mut b = GenericRecordDefinitionBuilder::<NativeDatumDetails>::new();
    let shape = |i: usize| if pat < WIDE_SHAPES.len() { WIDE_SHAPES[pat] } else { WIDE_SHAPES[(i * (pat - WIDE_SHAPES.len() + 1)) % WIDE_SHAPES.len()] };
    let strategy = || strategy_by_name(if s == 0 { "simple" } else { "basic" });
    for i in 0..k {
        let (size, align) = shape(i);
        b.add_datum(format!("f{}", i), NativeDatumDetails::new(usize::MAX, TypeInfo { name: format!("T{}_{}", size, align), size, align }, true)).unwrap();
    }
    b.close_record_variant_with(strategy());
    if second == 1 {
        for i in (0..k).step_by(3) { b.remove_datum(DatumId::from(i)).unwrap(); }
        for i in 0..k {
            let (size, align) = shape(i + 1);
            b.add_datum(format!("g{}", i), NativeDatumDetails::new(usize::MAX, TypeInfo { name: format!("T{}_{}", size, align), size, align }, true)).unwrap();
        }
        b.close_record_variant_with(strategy());
    }
    b.build()
}

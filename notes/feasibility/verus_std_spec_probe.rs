use vstd::prelude::*;
verus! {

#[derive(Clone, Copy, PartialEq, Eq)]
pub struct DatumId(pub usize);

pub assume_specification<T: PartialEq>[ <[T]>::contains ](s: &[T], x: &T) -> (r: bool)
    ensures r == s@.contains(*x);

pub assume_specification<'a, T, P: FnMut(&'a T) -> bool>[ <core::slice::Iter<'a, T> as Iterator>::position ](it: &mut core::slice::Iter<'a, T>, p: P) -> (r: Option<usize>);

pub struct B { pub last: Vec<DatumId>, pub to_add: Vec<DatumId>, pub to_remove: Vec<DatumId> }

impl B {
pub fn remove_datum(&mut self, datum_id: DatumId) -> (r: Result<(), String>)
{
    let index = self.last.iter().position(|did: &DatumId| *did == datum_id);
    if index.is_some() {
        if self.to_remove.contains(&datum_id) {
            return Err(String::new());
        }
        self.to_remove.push(datum_id);
    } else {
        let index = self.to_add.iter().position(|did: &DatumId| *did == datum_id);
        if let Some(index) = index {
            self.to_add.remove(index);
        } else {
            return Err(String::new());
        }
    }
    Ok(())
}
}

} // verus!
fn main() {}

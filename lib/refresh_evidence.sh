#!/bin/sh
# re-run every claimed check (quick tier) on the current /repo tree and validate the evidence files
cd /verif || exit 2
git -C /repo status --short | grep -q . && { echo "/repo has uncommitted changes"; exit 2; }
rc=0
for p in $(python3 -c "import json;print(' '.join(c['property_id'] for c in json.load(open('MANIFEST.json'))['checks']))"); do
  ./check $p --tier quick > /tmp/refresh_$p.log 2>&1; r=$?
  python3-vt -c "
import json,jsonschema,sys
e=json.load(open('/verif/evidence/$p.json'))
jsonschema.validate(e,json.load(open('/root/.vp/EVIDENCE.schema.json')))
assert e['violations']==0
if e['level']=='proof': assert e['coverage']['obligations']==e['coverage']['discharged']
" || r=9
  echo "$p rc=$r wall=$(python3 -c "import json;print(json.load(open('/verif/evidence/$p.json'))['wall_s'])")"
  [ $r -ne 0 ] && rc=1
done
exit $rc

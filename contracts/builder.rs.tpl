// Obligation unit `builder`: the generic record definition builder (C12, history half of C01-C03).
//!min-verified: 18
//!assume: derive_more::{From, Display} on DatumId / RecordVariantId and derive_new::new on DatumDefinition expand as documented (tuple constructor / field-wise `new`); their expansions are written out in this template (rule R5)
//!assume: std::mem::take(dest) returns *dest and leaves Default::default() (assume_specification)
//!assume: <slice::Iter as Iterator>::position returns the first index whose element satisfies the predicate (assume_specification)
//!assume: <[T]>::contains(x) == seq.contains(x) (assume_specification)
//!assume: get_current_datum_definition_by_name is external_body here (iterator chain outside Verus): contract "Some iff a datum of last - to_remove + to_add carries that name"; checked on the real function by Kani, one operation per harness (unit kani-builder)
//!assume: the blanket `impl RecordVariantBuilder<D> for F: FnOnce(..)` is a transparent delegation (one line; not extracted: Verus has no FnOnce-with-&mut specs)
//!assume: implementors of RecordVariantBuilder satisfy `generic_post` (proved for append_data, append_data_reverse, basic in unit layout via lemma; bounded for simple)
//!assume: String::from / Into<String> conversions of names are opaque (name text is not interpreted)
//!assume: `panic!` never returns (rule R14: in `build`, whose contract is "rejects by panicking", the panic statement is replaced by the external_body function `vx_diverge() -> !`)
//!assume: Verus' encoding of Rust semantics, Z3, rustc front end
//!props fn push : C12, C01, C03
//!props fn has_pending_changes : C12
//!props fn close_record_variant_with : C12, C01, C02, C03
//!props fn build : C12
//!props fn remove_datum : C12
//!props fn add_datum : C12
//!props fn get : C12
//!props fn get_variant : C12
//!props fn get_datum_definition : C12
#![allow(unused_imports, unused_variables, dead_code, non_snake_case, unused_mut)]
use vstd::prelude::*;
use vstd::std_specs::convert::*;
use vstd::std_specs::iter::IteratorSpec;

impl std::fmt::Display for DatumId {
    fn fmt(&self, f: &mut std::fmt::Formatter<'_>) -> std::fmt::Result { write!(f, "{}", self.0) }
}

verus! {

// ---------------------------------------------------------------------------------------------
// Types (R5)

#[derive(Clone, Copy, PartialEq, Eq, Structural)]
//@struct truc/src/record/definition/mod.rs :: struct DatumId
//@end

#[derive(Clone, Copy, PartialEq, Eq, Structural)]
//@struct truc/src/record/definition/mod.rs :: struct RecordVariantId
//@end

//@struct truc/src/record/definition/mod.rs :: struct DatumDefinition
//@end

//@struct truc/src/record/definition/mod.rs :: struct DatumDefinitionCollection
//@end

//@struct truc/src/record/definition/mod.rs :: struct RecordVariant
//@end

//@struct truc/src/record/definition/mod.rs :: struct RecordDefinition
//@end

//@struct truc/src/record/definition/builder/generic/mod.rs :: struct GenericRecordDefinitionBuilder
//@end

// documented expansions of the derives (R5)
impl From<usize> for DatumId { fn from(v: usize) -> Self { DatumId(v) } }
impl FromSpecImpl<usize> for DatumId {
    open spec fn obeys_from_spec() -> bool { true }
    open spec fn from_spec(v: usize) -> Self { DatumId(v) }
}
impl From<usize> for RecordVariantId { fn from(v: usize) -> Self { RecordVariantId(v) } }
impl FromSpecImpl<usize> for RecordVariantId {
    open spec fn obeys_from_spec() -> bool { true }
    open spec fn from_spec(v: usize) -> Self { RecordVariantId(v) }
}
impl<D> DatumDefinition<D> {
    pub fn new(id: DatumId, name: String, details: D) -> (r: Self)
        ensures r.id == id, r.name == name, r.details == details,
    { DatumDefinition { id, name, details } }
}

// std glue (assumed)
pub assume_specification<T: Default>[ std::mem::take::<T> ](dest: &mut T) -> (r: T)
    ensures r == *old(dest), call_ensures(T::default, (), *final(dest));

/// the values behind the references an iterator over a slice still has to yield
pub open spec fn vals<T>(rem: Seq<&T>) -> Seq<T> { Seq::new(rem.len(), |j: int| *rem[j]) }
pub broadcast proof fn lemma_vals_as_ref<T>(x: Seq<T>)
    ensures #[trigger] vals(x.as_ref()) == x,
{
    assert(vals(x.as_ref()) =~= x);
}

pub assume_specification<'a, T, P: FnMut(&'a T) -> bool>[ <core::slice::Iter<'a, T> as Iterator>::position::<P> ](it: &mut core::slice::Iter<'a, T>, p: P) -> (r: Option<usize>)
    where core::slice::Iter<'a, T>: Sized
    requires
        forall|x: &'a T| p.requires((x,)),
    ensures
        vals(old(it).remaining()).len() == old(it).remaining().len(),
        match r {
            Some(i) => i < vals(old(it).remaining()).len() && p.ensures((&vals(old(it).remaining())[i as int],), true)
                && forall|j: int| 0 <= j < i ==> p.ensures((&(#[trigger] vals(old(it).remaining())[j]),), false),
            None => forall|j: int| 0 <= j < vals(old(it).remaining()).len() ==> p.ensures((&(#[trigger] vals(old(it).remaining())[j]),), false),
        };

pub assume_specification<T: PartialEq>[ <[T]>::contains ](s: &[T], x: &T) -> (r: bool)
    ensures r == s@.contains(*x);

// ---------------------------------------------------------------------------------------------
// Spec vocabulary

pub open spec fn ids_ok<D>(defs: Seq<DatumDefinition<D>>) -> bool {
    forall|k: int| 0 <= k < defs.len() ==> (#[trigger] defs[k]).id.0 == k
}
pub open spec fn vvalid<D>(data: Seq<DatumId>, defs: Seq<DatumDefinition<D>>) -> bool {
    forall|i: int| 0 <= i < data.len() ==> (#[trigger] data[i]).0 < defs.len()
}
pub open spec fn distinct(data: Seq<DatumId>) -> bool {
    forall|i: int, j: int| #![trigger data[i], data[j]] 0 <= i < j < data.len() ==> data[i] != data[j]
}
pub open spec fn disjoint(a: Seq<DatumId>, b: Seq<DatumId>) -> bool {
    forall|i: int, j: int| #![trigger a[i], b[j]] 0 <= i < a.len() && 0 <= j < b.len() ==> a[i] != b[j]
}
pub open spec fn subset(a: Seq<DatumId>, b: Seq<DatumId>) -> bool {
    forall|i: int| 0 <= i < a.len() ==> b.contains(#[trigger] a[i])
}
pub open spec fn last_data(variants: Seq<RecordVariant>) -> Seq<DatumId> {
    if variants.len() == 0 { Seq::<DatumId>::empty() } else { variants[variants.len() - 1].data@ }
}
/// what every strategy must deliver, whatever `D` is: the new list is the old one minus removals
/// plus additions, without duplicates, over an id-preserving collection
pub open spec fn generic_post<D>(data: Seq<DatumId>, add: Seq<DatumId>, rm: Seq<DatumId>,
                                 defs0: Seq<DatumDefinition<D>>, defs1: Seq<DatumDefinition<D>>, out: Seq<DatumId>) -> bool {
    &&& defs1.len() == defs0.len()
    &&& forall|k: int| 0 <= k < defs0.len() ==> (#[trigger] defs1[k]).id == defs0[k].id && defs1[k].name == defs0[k].name
    &&& distinct(out)
    &&& forall|x: DatumId| #[trigger] out.contains(x) <==> (data.contains(x) && !rm.contains(x)) || add.contains(x)
}
/// what the builder guarantees to the strategy (doc comment of the trait)
pub open spec fn generic_pre<D>(data: Seq<DatumId>, add: Seq<DatumId>, rm: Seq<DatumId>, defs: Seq<DatumDefinition<D>>) -> bool {
    &&& vvalid(data, defs) && distinct(data)
    &&& vvalid(add, defs) && distinct(add)
    &&& disjoint(add, data)
    &&& subset(rm, data) && distinct(rm)
}

/// Builder invariant (DESIGN.md 4)
pub open spec fn inv<D>(b: GenericRecordDefinitionBuilder<D>) -> bool {
    let defs = b.datum_definitions.data@;
    &&& ids_ok(defs)
    &&& forall|v: int| 0 <= v < b.variants@.len() ==>
            (#[trigger] b.variants@[v]).id.0 == v && vvalid(b.variants@[v].data@, defs) && distinct(b.variants@[v].data@)
    &&& vvalid(b.data_to_add@, defs) && distinct(b.data_to_add@)
    // ids are never reused: a pending addition occurs in no closed variant
    &&& forall|v: int| 0 <= v < b.variants@.len() ==> disjoint(b.data_to_add@, (#[trigger] b.variants@[v]).data@)
    &&& subset(b.data_to_remove@, last_data(b.variants@)) && distinct(b.data_to_remove@)
}

/// the data of the variant being built
pub open spec fn in_current<D>(b: GenericRecordDefinitionBuilder<D>, x: DatumId) -> bool {
    (last_data(b.variants@).contains(x) && !b.data_to_remove@.contains(x)) || b.data_to_add@.contains(x)
}

// ---------------------------------------------------------------------------------------------
// B1 collection

impl<D> DatumDefinitionCollection<D> {
//@fn truc/src/record/definition/mod.rs :: impl<D> DatumDefinitionCollection<D> :: fn get
//@ ret r
//@ ensures
        r.is_some() == (id.0 < self.data@.len()),
        r.is_some() ==> *r.unwrap() == self.data@[id.0 as int]
//@end

//@fn truc/src/record/definition/mod.rs :: impl<D> DatumDefinitionCollection<D> :: fn push
//@ ret r
//@ vis pub
//@ requires
        old(self).data@.len() < usize::MAX
//@ ensures
        r.0 == old(self).data@.len(), // [C12]
        final(self).data@.len() == old(self).data@.len() + 1, // [C12]
        forall|k: int| 0 <= k < old(self).data@.len() ==> final(self).data@[k] == old(self).data@[k], // [C12,C03]
        final(self).data@[r.0 as int].id == r, // [C12]
        final(self).data@[r.0 as int].name == name,
        final(self).data@[r.0 as int].details == details,
//@end
}

// ---------------------------------------------------------------------------------------------
// strategy trait: contract-carrying declaration

pub trait RecordVariantBuilder<D>: Sized {
    spec fn build_pre(self, data: Seq<DatumId>, add: Seq<DatumId>, rm: Seq<DatumId>, defs: Seq<DatumDefinition<D>>) -> bool;
    spec fn build_post(self, data: Seq<DatumId>, add: Seq<DatumId>, rm: Seq<DatumId>,
                       defs0: Seq<DatumDefinition<D>>, defs1: Seq<DatumDefinition<D>>, out: Seq<DatumId>) -> bool;

//@fn truc/src/record/definition/builder/generic/variant/mod.rs :: trait RecordVariantBuilder :: fn build
//@ ret r
//@ requires
        generic_pre(data@, data_to_add@, data_to_remove@, old(datum_definitions).data@),
        self.build_pre(data@, data_to_add@, data_to_remove@, old(datum_definitions).data@)
//@ ensures
        generic_post(data@, data_to_add@, data_to_remove@, old(datum_definitions).data@, final(datum_definitions).data@, r@),
        self.build_post(data@, data_to_add@, data_to_remove@, old(datum_definitions).data@, final(datum_definitions).data@, r@)
//@end
}

// ---------------------------------------------------------------------------------------------
// B2-B5 builder

impl<D> GenericRecordDefinitionBuilder<D> {

//@fn truc/src/record/definition/builder/generic/mod.rs :: impl<D> GenericRecordDefinitionBuilder<D> :: fn has_pending_changes
//@ ret r
//@ ensures
        r == (self.variants@.len() == 0 || self.data_to_remove@.len() > 0 || self.data_to_add@.len() > 0)
//@end

//@fn truc/src/record/definition/builder/generic/mod.rs :: impl<D> GenericRecordDefinitionBuilder<D> :: fn get_datum_definition
//@ ret r
//@ ensures
        r.is_some() == (id.0 < self.datum_definitions.data@.len()),
        r.is_some() ==> *r.unwrap() == self.datum_definitions.data@[id.0 as int]
//@end

//@fn truc/src/record/definition/builder/generic/mod.rs :: impl<D> GenericRecordDefinitionBuilder<D> :: fn get_variant
//@ ret r
//@ ensures
        r.is_some() == (id.0 < self.variants@.len()),
        r.is_some() ==> *r.unwrap() == self.variants@[id.0 as int]
//@end

// B5 (lookup): outside Verus (filter / chain / filter_map / find); contract assumed here, checked by Kani
//@fn truc/src/record/definition/builder/generic/mod.rs :: impl<D> GenericRecordDefinitionBuilder<D> :: fn get_current_datum_definition_by_name
//@ attr #[verifier::external_body]
//@ sig-only
//@ ret r
//@ ensures
        r.is_some() <==> exists|x: DatumId| #[trigger] in_current(*self, x) && x.0 < self.datum_definitions.data@.len()
            && self.datum_definitions.data@[x.0 as int].name@ == name@
//@end

//@fn truc/src/record/definition/builder/generic/mod.rs :: impl<D> GenericRecordDefinitionBuilder<D> :: fn add_datum
//@ ret r
//@ requires
        inv(*old(self)),
        old(self).datum_definitions.data@.len() < usize::MAX
//@ ensures
        // rejected request: observable state unchanged
        r.is_err() ==> *final(self) == *old(self), // [C12]
        // accepted: a fresh id (never used before), appended to the pending additions
        r.is_ok() ==> r.unwrap().0 == old(self).datum_definitions.data@.len()
            && final(self).datum_definitions.data@.len() == old(self).datum_definitions.data@.len() + 1
            && (forall|k: int| 0 <= k < old(self).datum_definitions.data@.len() ==> final(self).datum_definitions.data@[k] == old(self).datum_definitions.data@[k])
            && final(self).datum_definitions.data@[r.unwrap().0 as int].details == details
            && final(self).data_to_add@ == old(self).data_to_add@.push(r.unwrap())
            && final(self).data_to_remove@ == old(self).data_to_remove@
            && final(self).variants@ == old(self).variants@, // [C12]
        // rejected exactly when the name is already carried by a datum of the variant being built
        <N as IntoSpec<String>>::obeys_into_spec() ==> (r.is_err() <==> exists|x: DatumId| #[trigger] in_current(*old(self), x) && x.0 < old(self).datum_definitions.data@.len()
            && old(self).datum_definitions.data@[x.0 as int].name@ == name_text(name)), // [C12]
        // (name_text(name) is the text of `name.into()`: see `spec fn name_text`)
        inv(*final(self)), // [C12]
//@ hint fn.end
        proof {
            let id = datum_id;
            let b0 = *old(self);
            let b1 = *self;
            assert forall|v: int| 0 <= v < b1.variants@.len() implies disjoint(b1.data_to_add@, (#[trigger] b1.variants@[v]).data@) by {
                assert(vvalid(b0.variants@[v].data@, b0.datum_definitions.data@));
                assert(disjoint(b0.data_to_add@, b0.variants@[v].data@));
            }
            assert(distinct(b1.data_to_add@)) by {
                assert(vvalid(b0.data_to_add@, b0.datum_definitions.data@));
            }
        }
//@end

//@fn truc/src/record/definition/builder/generic/mod.rs :: impl<D> GenericRecordDefinitionBuilder<D> :: fn remove_datum
//@ ret r
//@ requires
        inv(*old(self))
//@ ensures
        r.is_err() ==> *final(self) == *old(self), // [C12]
        final(self).variants@ == old(self).variants@, // [C12]
        final(self).datum_definitions == old(self).datum_definitions, // [C12,C03]
        // live datum of the last variant: becomes pending-removed
        (last_data(old(self).variants@).contains(datum_id) && !old(self).data_to_remove@.contains(datum_id)) ==>
            r.is_ok() && final(self).data_to_remove@ == old(self).data_to_remove@.push(datum_id)
            && final(self).data_to_add@ == old(self).data_to_add@, // [C12]
        // already removed: rejected
        (last_data(old(self).variants@).contains(datum_id) && old(self).data_to_remove@.contains(datum_id)) ==> r.is_err(), // [C12]
        // pending addition: forgotten
        (!last_data(old(self).variants@).contains(datum_id) && old(self).data_to_add@.contains(datum_id)) ==>
            r.is_ok() && !final(self).data_to_add@.contains(datum_id)
            && final(self).data_to_add@.len() == old(self).data_to_add@.len() - 1
            && (forall|x: DatumId| x != datum_id ==> (final(self).data_to_add@.contains(x) <==> old(self).data_to_add@.contains(x)))
            && final(self).data_to_remove@ == old(self).data_to_remove@, // [C12]
        // stale / unknown id: rejected
        (!last_data(old(self).variants@).contains(datum_id) && !old(self).data_to_add@.contains(datum_id)) ==> r.is_err(), // [C12]
        inv(*final(self)), // [C12]
//@ closure 1 params={did__r: &DatumId} ret={(b: bool)}
            ensures b == (*did__r == datum_id)
//@ closure 2 params={did__r: &DatumId} ret={(b: bool)}
            ensures b == (*did__r == datum_id)
//@ closure 3 params={did__r: &DatumId} ret={(b: bool)}
            ensures b == (*did__r == datum_id)
//@ hint fn.start
        let ghost b0 = *self;
        proof { broadcast use lemma_vals_as_ref; }
//@ hint after position#1
            proof {
                broadcast use lemma_vals_as_ref;
                let d = variant.data@;
                assert(d == last_data(b0.variants@));
                if index.is_none() {
                    assert(forall|j: int| 0 <= j < d.len() ==> d[j] != datum_id);
                    assert(!d.contains(datum_id));
                } else {
                    assert(d[index.unwrap() as int] == datum_id);
                    assert(d.contains(datum_id));
                }
            }
//@ hint after position#2
                proof {
                    broadcast use lemma_vals_as_ref;
                    let d = b0.data_to_add@;
                    if index.is_none() {
                        assert(forall|j: int| 0 <= j < d.len() ==> d[j] != datum_id);
                        assert(!d.contains(datum_id));
                    } else {
                        assert(d[index.unwrap() as int] == datum_id);
                        assert(d.contains(datum_id));
                    }
                }
//@ hint after position#3
            proof {
                broadcast use lemma_vals_as_ref;
                let d = b0.data_to_add@;
                assert(last_data(b0.variants@).len() == 0);
                if index.is_none() {
                    assert(forall|j: int| 0 <= j < d.len() ==> d[j] != datum_id);
                    assert(!d.contains(datum_id));
                } else {
                    assert(d[index.unwrap() as int] == datum_id);
                    assert(d.contains(datum_id));
                }
            }
//@ hint after remove#1
                    proof { lemma_removed(b0.data_to_add@, index as int, datum_id); lemma_inv_after_forget(b0, *self, index as int); }
//@ hint after remove#2
                proof { lemma_removed(b0.data_to_add@, index as int, datum_id); lemma_inv_after_forget(b0, *self, index as int); }
//@ hint after push#1
                proof { lemma_inv_after_remove(b0, *self, datum_id); }
//@end

//@fn truc/src/record/definition/builder/generic/mod.rs :: impl<D> GenericRecordDefinitionBuilder<D> :: fn close_record_variant_with
//@ ret r
//@ requires
        inv(*old(self)),
        old(self).variants@.len() < usize::MAX,
        builder.build_pre(last_data(old(self).variants@), old(self).data_to_add@, old(self).data_to_remove@, old(self).datum_definitions.data@)
//@ ensures
        // closing with no pending change creates no new variant
        (old(self).variants@.len() > 0 && old(self).data_to_add@.len() == 0 && old(self).data_to_remove@.len() == 0) ==>
            *final(self) == *old(self) && r.0 == old(self).variants@.len() - 1, // [C12]
        // otherwise exactly one new variant, holding what the strategy returned
        !(old(self).variants@.len() > 0 && old(self).data_to_add@.len() == 0 && old(self).data_to_remove@.len() == 0) ==> {
            &&& final(self).variants@.len() == old(self).variants@.len() + 1
            &&& r.0 == old(self).variants@.len()
            &&& forall|v: int| 0 <= v < old(self).variants@.len() ==> final(self).variants@[v] == old(self).variants@[v]
            &&& final(self).variants@[r.0 as int].id == r
            &&& final(self).data_to_add@.len() == 0 && final(self).data_to_remove@.len() == 0
            &&& generic_post(last_data(old(self).variants@), old(self).data_to_add@, old(self).data_to_remove@,
                    old(self).datum_definitions.data@, final(self).datum_definitions.data@, final(self).variants@[r.0 as int].data@)
            &&& builder.build_post(last_data(old(self).variants@), old(self).data_to_add@, old(self).data_to_remove@,
                    old(self).datum_definitions.data@, final(self).datum_definitions.data@, final(self).variants@[r.0 as int].data@)
        }, // [C12,C01,C02,C03]
        inv(*final(self)), // [C12]
//@ closure 1 params={variant: &RecordVariant} ret={(d: Vec<DatumId>)}
            ensures d@ == variant.data@
//@ hint fn.start
        let ghost b0 = *self;
//@ hint before builder#1
        proof {
            assert(data@ == last_data(b0.variants@));
            lemma_generic_pre(b0);
        }
//@ hint fn.end
        proof { lemma_inv_after_close(b0, *self); }
//@end

//@fn truc/src/record/definition/builder/generic/mod.rs :: impl<D> GenericRecordDefinitionBuilder<D> :: fn build
//@ ret r
//@ panic-diverges
//@ ensures
        // finishing with unclosed changes is rejected (by panicking, rule R14): whenever `build`
        // returns, nothing was pending
        self.data_to_add@.len() == 0 && self.data_to_remove@.len() == 0, // [C12]
        r.datum_definitions == self.datum_definitions, // [C12]
        r.variants == self.variants, // [C12]
//@end
}

/// rule R14: a rejecting `panic!` (diverges; assumed: `panic!` never returns)
#[verifier::external_body]
pub fn vx_diverge() -> ! {
    panic!()
}

// ---------------------------------------------------------------------------------------------
// Lemmas

/// the text of `name.into()` for name types whose `Into<String>` is specified
pub open spec fn name_text<N: Into<String>>(n: N) -> Seq<char> { <N as IntoSpec<String>>::into_spec(n)@ }

pub proof fn lemma_position_facts()
{
}

pub proof fn lemma_removed(s: Seq<DatumId>, i: int, x: DatumId)
    requires 0 <= i < s.len(), s[i] == x, distinct(s),
    ensures
        !s.remove(i).contains(x),
        s.remove(i).len() == s.len() - 1,
        forall|y: DatumId| y != x ==> (s.remove(i).contains(y) <==> s.contains(y)),
        distinct(s.remove(i)),
{
    let t = s.remove(i);
    assert forall|k: int| 0 <= k < t.len() implies t[k] == (if k < i { s[k] } else { s[k + 1] }) by {}
    if t.contains(x) {
        let k = choose|k: int| 0 <= k < t.len() && t[k] == x;
        if k < i { assert(s[k] == x); } else { assert(s[k + 1] == x); }
    }
    assert forall|y: DatumId| y != x implies (t.contains(y) <==> s.contains(y)) by {
        if t.contains(y) {
            let k = choose|k: int| 0 <= k < t.len() && t[k] == y;
            if k < i { assert(s[k] == y); } else { assert(s[k + 1] == y); }
        }
        if s.contains(y) {
            let k = choose|k: int| 0 <= k < s.len() && s[k] == y;
            if k < i { assert(t[k] == y); } else { assert(t[k - 1] == y); }
        }
    }
    assert forall|a: int, b: int| #![trigger t[a], t[b]] 0 <= a < b < t.len() implies t[a] != t[b] by {
        let a2 = if a < i { a } else { a + 1 };
        let b2 = if b < i { b } else { b + 1 };
        assert(s[a2] != s[b2]);
    }
}

pub proof fn lemma_inv_after_forget<D>(b0: GenericRecordDefinitionBuilder<D>, b1: GenericRecordDefinitionBuilder<D>, i: int)
    requires
        inv(b0), 0 <= i < b0.data_to_add@.len(),
        b1.data_to_add@ == b0.data_to_add@.remove(i),
        b1.variants == b0.variants, b1.data_to_remove == b0.data_to_remove, b1.datum_definitions == b0.datum_definitions,
    ensures inv(b1),
{
    let s = b0.data_to_add@;
    let t = b1.data_to_add@;
    lemma_removed(s, i, s[i]);
    assert forall|k: int| 0 <= k < t.len() implies t[k] == (if k < i { s[k] } else { s[k + 1] }) by {}
    assert forall|v: int| 0 <= v < b1.variants@.len() implies disjoint(t, (#[trigger] b1.variants@[v]).data@) by {
        assert(disjoint(s, b0.variants@[v].data@));
        let d = b1.variants@[v].data@;
        assert forall|a: int, b: int| #![trigger t[a], d[b]] 0 <= a < t.len() && 0 <= b < d.len() implies t[a] != d[b] by {
            let a2 = if a < i { a } else { a + 1 };
            assert(s[a2] != d[b]);
        }
    }
}

pub proof fn lemma_inv_after_remove<D>(b0: GenericRecordDefinitionBuilder<D>, b1: GenericRecordDefinitionBuilder<D>, x: DatumId)
    requires
        inv(b0), last_data(b0.variants@).contains(x), !b0.data_to_remove@.contains(x),
        b1.data_to_remove@ == b0.data_to_remove@.push(x),
        b1.variants == b0.variants, b1.data_to_add == b0.data_to_add, b1.datum_definitions == b0.datum_definitions,
    ensures inv(b1),
{
    let s = b0.data_to_remove@;
    let t = b1.data_to_remove@;
    assert forall|i: int| 0 <= i < t.len() implies last_data(b1.variants@).contains(#[trigger] t[i]) by {
        if i < s.len() { assert(t[i] == s[i]); }
    }
    assert forall|a: int, b: int| #![trigger t[a], t[b]] 0 <= a < b < t.len() implies t[a] != t[b] by {
        if b < s.len() { assert(t[a] == s[a] && t[b] == s[b]); } else { assert(t[a] == s[a]); assert(s.contains(s[a])); }
    }
}

pub proof fn lemma_generic_pre<D>(b: GenericRecordDefinitionBuilder<D>)
    requires inv(b),
    ensures generic_pre(last_data(b.variants@), b.data_to_add@, b.data_to_remove@, b.datum_definitions.data@),
{
    if b.variants@.len() > 0 {
        let v = b.variants@.len() - 1;
        assert(disjoint(b.data_to_add@, b.variants@[v].data@));
        assert(vvalid(b.variants@[v].data@, b.datum_definitions.data@));
    }
}

pub proof fn lemma_inv_after_close<D>(b0: GenericRecordDefinitionBuilder<D>, b1: GenericRecordDefinitionBuilder<D>)
    requires
        inv(b0),
        b1.variants@.len() == b0.variants@.len() + 1,
        forall|v: int| 0 <= v < b0.variants@.len() ==> b1.variants@[v] == b0.variants@[v],
        b1.variants@[b0.variants@.len() as int].id.0 == b0.variants@.len(),
        b1.data_to_add@.len() == 0, b1.data_to_remove@.len() == 0,
        generic_post(last_data(b0.variants@), b0.data_to_add@, b0.data_to_remove@, b0.datum_definitions.data@,
            b1.datum_definitions.data@, b1.variants@[b0.variants@.len() as int].data@),
    ensures inv(b1),
{
    let defs0 = b0.datum_definitions.data@;
    let defs1 = b1.datum_definitions.data@;
    let n = b0.variants@.len() as int;
    let out = b1.variants@[n].data@;
    let data = last_data(b0.variants@);
    assert forall|k: int| 0 <= k < defs1.len() implies (#[trigger] defs1[k]).id.0 == k by { assert(defs0[k].id.0 == k); }
    assert forall|i: int| 0 <= i < out.len() implies (#[trigger] out[i]).0 < defs1.len() by {
        let x = out[i];
        assert(out.contains(x));
        if data.contains(x) {
            let j = choose|j: int| 0 <= j < data.len() && data[j] == x;
            assert(vvalid(b0.variants@[n - 1].data@, defs0));
        } else {
            let j = choose|j: int| 0 <= j < b0.data_to_add@.len() && b0.data_to_add@[j] == x;
        }
    }
    assert forall|v: int| 0 <= v < b1.variants@.len() implies
        (#[trigger] b1.variants@[v]).id.0 == v && vvalid(b1.variants@[v].data@, defs1) && distinct(b1.variants@[v].data@) by {
        if v < n {
            assert(b1.variants@[v] == b0.variants@[v]);
            assert(vvalid(b0.variants@[v].data@, defs0));
        }
    }
    assert(last_data(b1.variants@) == out);
}

/// "identifiers are never reused": an id handed out by `add_datum` is larger than every id that
/// occurs anywhere in the builder (ids are indices into an append-only collection).
pub proof fn lemma_ids_fresh<D>(b: GenericRecordDefinitionBuilder<D>, v: int, i: int)
    requires inv(b), 0 <= v < b.variants@.len(), 0 <= i < b.variants@[v].data@.len(),
    ensures b.variants@[v].data@[i].0 < b.datum_definitions.data@.len(),
{
    assert(vvalid(b.variants@[v].data@, b.datum_definitions.data@));
}

} // verus!

// crate-path scaffolding: `crate::record::…` paths used inside extracted functions resolve to the
// items of this single-file unit
#[allow(unused_imports)]
pub mod record {
    pub mod type_resolver { pub use crate::*; }
    pub mod type_name { pub use crate::*; }
    pub mod definition {
        pub use crate::*;
        pub mod builder {
            pub use crate::*;
            pub mod native { pub use crate::*; pub mod variant { pub use crate::*; } }
            pub mod generic { pub use crate::*; pub mod variant { pub use crate::*; } }
        }
    }
}
fn main() {}

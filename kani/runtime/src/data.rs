//! C07 (primitive level), R1: contracts of `RecordMaybeUninit::{read, write, get, get_mut}`.
//!
//! Contract checked for each primitive, monomorphic instances, *symbolic* offset and *symbolic
//! placement* of the record inside an aligned arena:
//!   requires  offset + size_of::<T>() <= CAP  and  (record address + offset) % align_of::<T>() == 0
//!   ensures   the access touches exactly bytes [offset, offset + size_of::<T>()) of the record;
//!             `read` after `write` returns the value; other bytes are unchanged.
//! CBMC gives every object a well-aligned base address, so alignment of raw `ptr::read/write` is
//! only observable when the record is viewed at `arena + k` and `ptr::read/write` are replaced by
//! wrappers asserting std's documented alignment precondition (Kani itself checks alignment only
//! when a *reference* is created, i.e. in `get`/`get_mut`).
use std::ptr::read as real_read;
use std::ptr::write as real_write;

use truc_runtime::data::RecordMaybeUninit;

pub unsafe fn checked_write<T>(dst: *mut T, src: T) {
    assert!((dst as usize) % std::mem::align_of::<T>() == 0, "ptr::write requires an aligned destination");
    let n = std::mem::size_of::<T>();
    let s = &src as *const T as *const u8;
    let d = dst as *mut u8;
    let mut i = 0;
    while i < n {
        *d.add(i) = *s.add(i);
        i += 1;
    }
    std::mem::forget(src);
}

pub unsafe fn checked_read<T>(src: *const T) -> T {
    assert!((src as usize) % std::mem::align_of::<T>() == 0, "ptr::read requires an aligned source");
    let mut out = std::mem::MaybeUninit::<T>::uninit();
    let n = std::mem::size_of::<T>();
    let s = src as *const u8;
    let d = out.as_mut_ptr() as *mut u8;
    let mut i = 0;
    while i < n {
        *d.add(i) = *s.add(i);
        i += 1;
    }
    out.assume_init()
}

#[repr(align(16))]
pub struct Arena(pub [u8; 48]);

const CAP: usize = 16;

/// a `RecordMaybeUninit<CAP>` living at `arena + k`
unsafe fn view<'a>(arena: &'a mut Arena, k: usize) -> &'a mut RecordMaybeUninit<CAP> {
    &mut *(arena.0.as_mut_ptr().add(k) as *mut RecordMaybeUninit<CAP>)
}

macro_rules! primitive_contract {
    ($name:ident, $t:ty) => {
        pub mod $name {
            use super::*;
            /// write then read / get / get_mut at a symbolic offset, record placed where its
            /// *aligned wrapper type* would be placed (k multiple of 16): contract must hold
            #[kani::proof]
            #[kani::unwind(50)]
            #[kani::stub(real_write, checked_write)]
            #[kani::stub(real_read, checked_read)]
            pub fn c07_aligned_record() {
                let mut arena = Arena(kani::any());
                let before = arena.0;
                let k: usize = kani::any();
                kani::assume(k == 0 || k == 16 || k == 32);
                let off: usize = kani::any();
                let sz = std::mem::size_of::<$t>();
                kani::assume(off <= CAP && sz <= CAP - off);
                kani::assume(off % std::mem::align_of::<$t>() == 0);
                let v: $t = kani::any();
                let w: $t = kani::any();
                unsafe {
                    let r = view(&mut arena, k);
                    r.write::<$t>(off, v);
                    assert!(*r.get::<$t>(off) == v, "get after write");
                    *r.get_mut::<$t>(off) = w;
                    assert!(r.read::<$t>(off) == w, "read after get_mut store");
                }
                // frame: nothing outside [k+off, k+off+sz) changed
                let mut i = 0;
                while i < 48 {
                    if i < k + off || i >= k + off + sz {
                        assert!(arena.0[i] == before[i], "byte outside the accessed range changed");
                    }
                    i += 1;
                }
                kani::cover!(k == 16 && off + sz == CAP, "reachable: last slot of a record in the middle");
            }

        }
    };
}

primitive_contract!(prim_u8, u8);
primitive_contract!(prim_u16, u16);
primitive_contract!(prim_u32, u32);
primitive_contract!(prim_u64, u64);
primitive_contract!(prim_u128, u128);

// ---------------------------------------------------------------------------------------------
// Probes on a *bare* buffer (alignment 1: the record viewed at arena + k for any k).  Each probe
// answers "does this primitive require more alignment than `RecordMaybeUninit<CAP>` itself
// guarantees?".  A probe that FAILS means: yes, the primitive has the precondition
// `(address + offset) % align_of::<T>() == 0`, and every call site whose receiver is a bare buffer
// (a local `RecordMaybeUninit`, not the field of the `repr(align(N))` record) is an unmet
// precondition.  kani_units.py reads the verdicts; gk classifies the call sites.
macro_rules! bare_probes {
    ($name:ident, $t:ty) => {
        pub mod $name {
            use super::*;
            fn setup() -> (usize, usize) {
                let k: usize = kani::any();
                kani::assume(k < 16);
                let off: usize = kani::any();
                let sz = std::mem::size_of::<$t>();
                kani::assume(off <= CAP && sz <= CAP - off);
                kani::assume(off % std::mem::align_of::<$t>() == 0);
                (k, off)
            }
            #[kani::proof]
            #[kani::unwind(20)]
            #[kani::stub(real_write, checked_write)]
            pub fn probe_write_on_bare_buffer() {
                let mut arena = Arena(kani::any());
                let (k, off) = setup();
                let v: $t = kani::any();
                unsafe {
                    let r = view(&mut arena, k);
                    r.write::<$t>(off, v);
                    let back = std::ptr::read_unaligned(arena.0.as_ptr().add(k + off) as *const $t);
                    assert!(back == v, "value not stored");
                }
            }
            #[kani::proof]
            #[kani::unwind(20)]
            #[kani::stub(real_read, checked_read)]
            pub fn probe_read_on_bare_buffer() {
                let mut arena = Arena(kani::any());
                let (k, off) = setup();
                unsafe {
                    let r = view(&mut arena, k);
                    let _ = r.read::<$t>(off);
                }
            }
            #[kani::proof]
            pub fn probe_get_on_bare_buffer() {
                let mut arena = Arena(kani::any());
                let (k, off) = setup();
                unsafe {
                    let r = view(&mut arena, k);
                    let _ = *r.get::<$t>(off);
                }
            }
            #[kani::proof]
            pub fn probe_get_mut_on_bare_buffer() {
                let mut arena = Arena(kani::any());
                let (k, off) = setup();
                unsafe {
                    let r = view(&mut arena, k);
                    *r.get_mut::<$t>(off) = kani::any();
                }
            }
        }
    };
}
bare_probes!(bare_u32, u32);
bare_probes!(bare_u64, u64);

/// out-of-capacity accesses are caught (control: the pointer checks are live)
#[kani::proof]
pub fn control_oob_is_detected() {
    let mut r = RecordMaybeUninit::<8>::new();
    let off: usize = kani::any();
    kani::assume(off == 6);
    unsafe {
        r.write::<u32>(off, kani::any());
    }
}

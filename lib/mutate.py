#!/usr/bin/env python3
"""Mutation probe of the machinery itself (not a registered check).

  mutate.py gen <out_dir> [--files glob,...] [--max N] [--seed S]
      enumerate token-level mutants of /repo's non-test code, sample N of them (stratified by file),
      and for each one, in a scratch worktree: does it compile, does the existing suite pass?
      survivors (compile + suite green) are written as <out_dir>/<id>.diff with a meta line.
  mutate.py run <out_dir> [--only id,...]
      apply each survivor to /repo, run the quick checks of the properties mapped to its file,
      undo; record which property/unit reports it.  Writes <out_dir>/results.json.

Operators: relational / arithmetic / logical operator swaps, integer literal 0<->1, true<->false,
`if c` -> `if !(c)`, .min<->.max, is_some<->is_none, deletion of a non-`let` expression statement.
"""
import glob
import hashlib
import json
import os
import random
import subprocess
import sys

sys.path.insert(0, os.path.dirname(os.path.abspath(__file__)))
import rustlex  # noqa: E402

REPO = '/repo'
FILES = [
    'truc/src/record/definition/mod.rs', 'truc/src/record/definition/convert.rs',
    'truc/src/record/definition/builder/generic/mod.rs', 'truc/src/record/definition/builder/generic/variant/dummy.rs',
    'truc/src/record/definition/builder/native/mod.rs', 'truc/src/record/definition/builder/native/variant/mod.rs',
    'truc/src/record/definition/builder/native/variant/simple.rs', 'truc/src/record/definition/builder/native/variant/basic.rs',
    'truc/src/record/definition/builder/native/variant/dummy.rs',
    'truc/src/record/type_name.rs', 'truc/src/record/type_resolver.rs',
    'truc/src/generator/mod.rs', 'truc/src/generator/config.rs',
    'truc/src/generator/fragment/record.rs', 'truc/src/generator/fragment/record_impl.rs', 'truc/src/generator/fragment/data_records.rs',
    'truc/src/generator/fragment/drop_impl.rs', 'truc/src/generator/fragment/from_previous_record_data_records.rs',
    'truc/src/generator/fragment/from_previous_record_impls.rs', 'truc/src/generator/fragment/from_unpacked_record_impls.rs',
    'truc/src/generator/fragment/clone.rs', 'truc/src/generator/fragment/serde.rs',
    'truc_runtime/src/convert.rs', 'truc_runtime/src/data.rs',
]

PROPS = [
    ('truc/src/record/definition/builder/native/variant/', ['C01', 'C12']),
    ('truc/src/record/definition/builder/generic/', ['C12', 'C20']),
    ('truc/src/record/definition/builder/native/mod.rs', ['C18', 'C12']),
    ('truc/src/record/definition/convert.rs', ['C20']),
    ('truc/src/record/definition/mod.rs', ['C13', 'C12']),
    ('truc/src/record/type_', ['C17', 'C18']),
    ('truc/src/generator/', ['C04', 'C05', 'C06', 'C16', 'C15', 'C07', 'C02', 'C03', 'C13', 'C19']),
    ('truc_runtime/src/convert.rs', ['C09', 'C08', 'C10']),
    ('truc_runtime/src/data.rs', ['C07', 'C04']),
]

SWAP = {'<': '<=', '<=': '<', '>': '>=', '>=': '>', '==': '!=', '!=': '==', '&&': '||', '||': '&&', '+': '-', '-': '+',
        '+=': '-=', '-=': '+='}


def excluded_ranges(text, toks, match):
    """byte ranges of #[cfg(test)] / #[cfg(kani)] modules and of every attribute"""
    ex = []
    for k, t in enumerate(toks):
        if t.kind == 'punct' and t.text == '#' and k + 1 < len(toks) and toks[k + 1].text == '[':
            c = match[k + 1]
            ex.append((t.start, toks[c].end))
            inner = text[toks[k + 1].end:toks[c].start]
            if inner.replace(' ', '') in ('cfg(test)', 'cfg(kani)'):
                # skip to the item's body
                j = c + 1
                while j < len(toks) and not (toks[j].kind == 'open' and toks[j].text == '{') and toks[j].text != ';':
                    if toks[j].text == '#' and toks[j + 1].text == '[':
                        j = match[j + 1]
                    j += 1
                if j < len(toks) and toks[j].text == '{':
                    ex.append((t.start, toks[match[j]].end))
    return ex


def mutants_of(rel):
    text = open(os.path.join(REPO, rel)).read()
    toks = rustlex.lex(text)
    match = rustlex.match_delims(toks)
    ex = excluded_ranges(text, toks, match)

    def skip(pos):
        return any(a <= pos < b for a, b in ex)
    # inside function bodies only: depth of `{` after a `fn`
    in_fn = [False] * len(toks)
    k = 0
    while k < len(toks):
        if toks[k].kind == 'ident' and toks[k].text == 'fn':
            j = k
            while j < len(toks) and not (toks[j].kind == 'open' and toks[j].text == '{') and toks[j].text != ';':
                if toks[j].kind == 'open':
                    j = match[j]
                j += 1
            if j < len(toks) and toks[j].text == '{':
                for x in range(j, match[j] + 1):
                    in_fn[x] = True
        k += 1
    out = []

    def add(a, b, new, what):
        line = text.count('\n', 0, a) + 1
        out.append({'file': rel, 'start': a, 'end': b, 'new': new, 'what': what, 'line': line})
    for k, t in enumerate(toks):
        if not in_fn[k] or skip(t.start):
            continue
        sp_before = t.start > 0 and text[t.start - 1] == ' '
        sp_after = t.end < len(text) and text[t.end] in ' \n'
        if t.kind == 'punct' and t.text in SWAP and sp_before and sp_after:
            if t.text == '||' and toks[k - 1].kind in ('open',) or (t.text == '||' and toks[k - 1].text in (',', '=', '(')):
                continue
            add(t.start, t.end, SWAP[t.text], '%s -> %s' % (t.text, SWAP[t.text]))
        elif t.kind == 'lit' and t.text in ('0', '1') and not (toks[k - 1].text == '.'):
            add(t.start, t.end, '1' if t.text == '0' else '0', '%s -> %s' % (t.text, '1' if t.text == '0' else '0'))
        elif t.kind == 'ident' and t.text in ('true', 'false'):
            add(t.start, t.end, 'false' if t.text == 'true' else 'true', 'bool literal flipped')
        elif t.kind == 'ident' and t.text in ('min', 'max', 'is_some', 'is_none', 'is_ok', 'is_err') and toks[k - 1].text == '.':
            new = {'min': 'max', 'max': 'min', 'is_some': 'is_none', 'is_none': 'is_some', 'is_ok': 'is_err', 'is_err': 'is_ok'}[t.text]
            add(t.start, t.end, new, '.%s -> .%s' % (t.text, new))
        elif t.kind == 'ident' and t.text == 'if' and toks[k + 1].text != 'let':
            j = k + 1
            while j < len(toks) and not (toks[j].kind == 'open' and toks[j].text == '{'):
                if toks[j].kind == 'open':
                    j = match[j]
                j += 1
            cond = text[toks[k + 1].start:toks[j - 1].end]
            if '&&' in cond and 'let ' in cond:
                continue
            add(toks[k + 1].start, toks[j - 1].end, '!(%s)' % cond, 'if condition negated')
        elif t.kind == 'punct' and t.text == ';' and toks[k - 1].kind == 'close' and toks[k - 1].text == ')':
            # expression statement `recv.method(...);` -> deleted
            s = k - 1
            o = match[s]
            j = o - 1
            ok = False
            while j > 0 and (toks[j].kind == 'ident' or toks[j].text in ('.', '::') or (toks[j].kind == 'close')):
                if toks[j].kind == 'close':
                    j = match[j]
                j -= 1
                ok = True
            first = j + 1
            if ok and toks[j].text in (';', '{', '}') and toks[first].kind == 'ident' and toks[first].text not in ('let', 'return', 'break', 'continue', 'panic', 'assert', 'write', 'writeln'):
                stmt = text[toks[first].start:t.end]
                if '\n' not in stmt.strip() or len(stmt) < 200:
                    add(toks[first].start, t.end, '', 'statement deleted: %s' % ' '.join(stmt.split())[:70])
    return text, out


def sh(cmd, cwd=None, env=None, timeout=3600):
    e = dict(os.environ)
    e.update(env or {})
    try:
        p = subprocess.run(cmd, cwd=cwd, env=e, stdout=subprocess.PIPE, stderr=subprocess.STDOUT, text=True, timeout=timeout)
    except subprocess.TimeoutExpired:
        subprocess.run(['pkill', '-f', '/tmp/wt_mut_'])
        return 124, 'timeout'
    return p.returncode, p.stdout


def cmd_gen(out_dir, files, maxn, seed):
    os.makedirs(out_dir, exist_ok=True)
    allm = []
    for rel in files:
        text, ms = mutants_of(rel)
        for m in ms:
            m['id'] = hashlib.sha1(('%s:%d:%s' % (rel, m['start'], m['new'])).encode()).hexdigest()[:10]
        allm.append((rel, text, ms))
    rng = random.Random(seed)
    total = sum(len(ms) for _, _, ms in allm)
    chosen = []
    for rel, text, ms in allm:
        n = max(1, round(maxn * len(ms) / max(1, total)))
        chosen += [(rel, text, m) for m in rng.sample(ms, min(n, len(ms)))]
    print('candidate sites: %d, sampled: %d' % (total, len(chosen)))
    wt = '/tmp/wt_mut_%d' % os.getpid()
    sh(['git', '-C', REPO, 'worktree', 'add', '-q', wt, 'HEAD'])
    tgt = wt + '/target'
    summary = {'sites': total, 'sampled': len(chosen), 'compile_error': 0, 'suite_fails': 0, 'survivors': []}
    try:
        sh(['cargo', 'test', '--workspace', '--offline', '--no-run'], cwd=wt, env={'CARGO_TARGET_DIR': tgt})
        for i, (rel, text, m) in enumerate(chosen):
            new_text = text[:m['start']] + m['new'] + text[m['end']:]
            open(os.path.join(wt, rel), 'w').write(new_text)
            rc, out = sh(['cargo', 'test', '--workspace', '--offline', '--no-fail-fast', '-q'], cwd=wt, env={'CARGO_TARGET_DIR': tgt}, timeout=300)
            if 'error' in out and ('could not compile' in out or 'error[' in out):
                verdict = 'compile_error'
            elif rc != 0:
                verdict = 'suite_fails'
            else:
                verdict = 'survivor'
                if 'warning: unused' in out or 'warning: unreachable' in out:
                    verdict = 'survivor'   # warnings tolerated: recorded below
            if verdict == 'survivor':
                rc2, diff = sh(['git', '-C', wt, 'diff'])
                open(os.path.join(out_dir, m['id'] + '.diff'), 'w').write(diff)
                summary['survivors'].append({'id': m['id'], 'file': rel, 'line': m['line'], 'what': m['what']})
            else:
                summary[verdict] += 1
            print('[%d/%d] %s %s:%d %s -> %s' % (i + 1, len(chosen), m['id'], rel, m['line'], m['what'], verdict), flush=True)
            sh(['git', '-C', wt, 'checkout', '--', '.'])
    finally:
        sh(['git', '-C', REPO, 'worktree', 'remove', '--force', wt])
        sh(['git', '-C', REPO, 'worktree', 'prune'])
    json.dump(summary, open(os.path.join(out_dir, 'survivors.json'), 'w'), indent=1)
    print('survivors: %d' % len(summary['survivors']))


def props_of(rel):
    for prefix, ps in PROPS:
        if rel.startswith(prefix):
            return ps
    return []


def cmd_run(out_dir, only):
    s = json.load(open(os.path.join(out_dir, 'survivors.json')))
    res_path = os.path.join(out_dir, 'results.json')
    results = json.load(open(res_path)) if os.path.exists(res_path) else {}
    rc, st = sh(['git', '-C', REPO, 'status', '--short'])
    if st.strip():
        print('/repo is not clean'); sys.exit(2)
    for sv in s['survivors']:
        if only and sv['id'] not in only:
            continue
        if sv['id'] in results:
            continue
        diff = os.path.join(out_dir, sv['id'] + '.diff')
        rc, out = sh(['git', '-C', REPO, 'apply', diff])
        if rc != 0:
            results[sv['id']] = dict(sv, verdict='patch does not apply')
            continue
        verdict, by = 'not detected', []
        try:
            for p in props_of(sv['file']):
                rc, out = sh(['/verif/check', p, '--tier', 'quick'], cwd='/verif', timeout=7200)
                units = [l for l in out.split('\n') if l.startswith('[')]
                if rc == 1:
                    verdict = 'detected'
                    by.append({'property': p, 'units': [u[6:50].strip() + (' VIOLATION' if 'VIOLATION' in u else '') for u in units if 'VIOLATION' in u]})
                    break
                if rc == 2:
                    by.append({'property': p, 'inconclusive': [u[:160] for u in units if 'INCONCLUSIVE' in u]})
                    if verdict == 'not detected':
                        verdict = 'inconclusive'
        finally:
            sh(['git', '-C', REPO, 'checkout', '--', '.'])
        results[sv['id']] = dict(sv, verdict=verdict, by=by)
        print('%s %s:%d %s -> %s %s' % (sv['id'], sv['file'], sv['line'], sv['what'], verdict, json.dumps(by)[:200]), flush=True)
        json.dump(results, open(res_path, 'w'), indent=1)


def main():
    a = sys.argv[1:]
    def opt(name, default=None):
        return a[a.index(name) + 1] if name in a else default
    if a[0] == 'gen':
        files = FILES
        if opt('--files'):
            pats = opt('--files').split(',')
            files = [f for f in FILES if any(p in f for p in pats)]
        cmd_gen(a[1], files, int(opt('--max', '120')), int(opt('--seed', '1')))
    elif a[0] == 'run':
        cmd_run(a[1], (opt('--only') or '').split(',') if opt('--only') else None)
    elif a[0] == 'list':
        tot = 0
        for rel in FILES:
            _, ms = mutants_of(rel)
            tot += len(ms)
            print(rel, len(ms))
        print('total', tot)


if __name__ == '__main__':
    main()

//! A tiny data format implementing serde's data model, used to put the *generated* Serialize /
//! Deserialize impls under contract (C15) without serde_json / bincode (whose string and number
//! code neither verifier reaches).  A record is a `TupleStart(n)`, n element tokens, `TupleEnd`.
//! The format can be self-describing (sequence length known: `size_hint() = Some`) or not.
use serde::{de, ser};

pub const MAXTOK: usize = 10;

#[derive(Clone, Copy, PartialEq, Eq, Debug)]
pub enum Token {
    U8(u8),
    U16(u16),
    U32(u32),
    U64(u64),
    /// an `Option<u32>` element (one token per record field keeps the positional contract simple)
    OptU32(Option<u32>),
    TupleStart(usize),
    TupleEnd,
    /// an element no type can be decoded from
    Bad,
    Nothing,
}

#[derive(Debug, PartialEq, Eq, Clone, Copy)]
pub enum FmtError {
    Unsupported,
    Overflow,
    Custom,
    Eof,
    BadToken,
}
impl std::fmt::Display for FmtError {
    fn fmt(&self, _f: &mut std::fmt::Formatter<'_>) -> std::fmt::Result {
        Ok(())
    }
}
impl std::error::Error for FmtError {}
impl ser::Error for FmtError {
    fn custom<T: std::fmt::Display>(_msg: T) -> Self {
        FmtError::Custom
    }
}
impl de::Error for FmtError {
    fn custom<T: std::fmt::Display>(_msg: T) -> Self {
        FmtError::Custom
    }
}

pub struct Buf {
    pub toks: [Token; MAXTOK],
    pub len: usize,
}
impl Buf {
    pub fn new() -> Self {
        Buf { toks: [Token::Nothing; MAXTOK], len: 0 }
    }
    fn push(&mut self, t: Token) -> Result<(), FmtError> {
        if self.len >= MAXTOK {
            return Err(FmtError::Overflow);
        }
        self.toks[self.len] = t;
        self.len += 1;
        Ok(())
    }
}

// ---------------------------------------------------------------------------------------------
pub struct Ser<'a> {
    pub out: &'a mut Buf,
}

type Imp = ser::Impossible<(), FmtError>;

impl<'a> ser::Serializer for Ser<'a> {
    type Ok = ();
    type Error = FmtError;
    type SerializeSeq = Imp;
    type SerializeTuple = TupleSer<'a>;
    type SerializeTupleStruct = Imp;
    type SerializeTupleVariant = Imp;
    type SerializeMap = Imp;
    type SerializeStruct = Imp;
    type SerializeStructVariant = Imp;

    fn serialize_u8(self, v: u8) -> Result<(), FmtError> { self.out.push(Token::U8(v)) }
    fn serialize_u16(self, v: u16) -> Result<(), FmtError> { self.out.push(Token::U16(v)) }
    fn serialize_u32(self, v: u32) -> Result<(), FmtError> { self.out.push(Token::U32(v)) }
    fn serialize_u64(self, v: u64) -> Result<(), FmtError> { self.out.push(Token::U64(v)) }
    fn serialize_tuple(self, len: usize) -> Result<TupleSer<'a>, FmtError> {
        self.out.push(Token::TupleStart(len))?;
        Ok(TupleSer { out: self.out })
    }

    fn serialize_bool(self, _v: bool) -> Result<(), FmtError> { Err(FmtError::Unsupported) }
    fn serialize_i8(self, _v: i8) -> Result<(), FmtError> { Err(FmtError::Unsupported) }
    fn serialize_i16(self, _v: i16) -> Result<(), FmtError> { Err(FmtError::Unsupported) }
    fn serialize_i32(self, _v: i32) -> Result<(), FmtError> { Err(FmtError::Unsupported) }
    fn serialize_i64(self, _v: i64) -> Result<(), FmtError> { Err(FmtError::Unsupported) }
    fn serialize_f32(self, _v: f32) -> Result<(), FmtError> { Err(FmtError::Unsupported) }
    fn serialize_f64(self, _v: f64) -> Result<(), FmtError> { Err(FmtError::Unsupported) }
    fn serialize_char(self, _v: char) -> Result<(), FmtError> { Err(FmtError::Unsupported) }
    fn serialize_str(self, _v: &str) -> Result<(), FmtError> { Err(FmtError::Unsupported) }
    fn serialize_bytes(self, _v: &[u8]) -> Result<(), FmtError> { Err(FmtError::Unsupported) }
    fn serialize_none(self) -> Result<(), FmtError> { self.out.push(Token::OptU32(None)) }
    fn serialize_some<T: ?Sized + ser::Serialize>(self, value: &T) -> Result<(), FmtError> {
        let mut inner = Buf::new();
        value.serialize(Ser { out: &mut inner })?;
        match (inner.len, inner.toks[0]) {
            (1, Token::U32(v)) => self.out.push(Token::OptU32(Some(v))),
            _ => Err(FmtError::Unsupported),
        }
    }
    fn serialize_unit(self) -> Result<(), FmtError> { Err(FmtError::Unsupported) }
    fn serialize_unit_struct(self, _name: &'static str) -> Result<(), FmtError> { Err(FmtError::Unsupported) }
    fn serialize_unit_variant(self, _n: &'static str, _i: u32, _v: &'static str) -> Result<(), FmtError> { Err(FmtError::Unsupported) }
    fn serialize_newtype_struct<T: ?Sized + ser::Serialize>(self, _n: &'static str, _v: &T) -> Result<(), FmtError> { Err(FmtError::Unsupported) }
    fn serialize_newtype_variant<T: ?Sized + ser::Serialize>(self, _n: &'static str, _i: u32, _v: &'static str, _value: &T) -> Result<(), FmtError> { Err(FmtError::Unsupported) }
    fn serialize_seq(self, _len: Option<usize>) -> Result<Imp, FmtError> { Err(FmtError::Unsupported) }
    fn serialize_tuple_struct(self, _n: &'static str, _len: usize) -> Result<Imp, FmtError> { Err(FmtError::Unsupported) }
    fn serialize_tuple_variant(self, _n: &'static str, _i: u32, _v: &'static str, _len: usize) -> Result<Imp, FmtError> { Err(FmtError::Unsupported) }
    fn serialize_map(self, _len: Option<usize>) -> Result<Imp, FmtError> { Err(FmtError::Unsupported) }
    fn serialize_struct(self, _n: &'static str, _len: usize) -> Result<Imp, FmtError> { Err(FmtError::Unsupported) }
    fn serialize_struct_variant(self, _n: &'static str, _i: u32, _v: &'static str, _len: usize) -> Result<Imp, FmtError> { Err(FmtError::Unsupported) }
}

pub struct TupleSer<'a> {
    out: &'a mut Buf,
}
impl<'a> ser::SerializeTuple for TupleSer<'a> {
    type Ok = ();
    type Error = FmtError;
    fn serialize_element<T: ?Sized + ser::Serialize>(&mut self, value: &T) -> Result<(), FmtError> {
        value.serialize(Ser { out: self.out })
    }
    fn end(self) -> Result<(), FmtError> {
        self.out.push(Token::TupleEnd)
    }
}

// ---------------------------------------------------------------------------------------------
pub struct Input<'a> {
    pub toks: &'a [Token; MAXTOK],
    pub len: usize,
    pub pos: usize,
    pub self_describing: bool,
}

pub struct De<'a, 'b> {
    pub input: &'b mut Input<'a>,
}

impl<'a, 'b> De<'a, 'b> {
    fn next(&mut self) -> Result<Token, FmtError> {
        if self.input.pos >= self.input.len {
            return Err(FmtError::Eof);
        }
        let t = self.input.toks[self.input.pos];
        self.input.pos += 1;
        Ok(t)
    }
}

impl<'de, 'a, 'b> de::Deserializer<'de> for De<'a, 'b> {
    type Error = FmtError;

    fn deserialize_any<V: de::Visitor<'de>>(mut self, visitor: V) -> Result<V::Value, FmtError> {
        match self.next()? {
            Token::U8(v) => visitor.visit_u8(v),
            Token::U16(v) => visitor.visit_u16(v),
            Token::U32(v) => visitor.visit_u32(v),
            Token::U64(v) => visitor.visit_u64(v),
            _ => Err(FmtError::BadToken),
        }
    }

    fn deserialize_option<V: de::Visitor<'de>>(mut self, visitor: V) -> Result<V::Value, FmtError> {
        match self.next()? {
            Token::OptU32(None) => visitor.visit_none(),
            Token::OptU32(Some(v)) => visitor.visit_some(de::value::U32Deserializer::<FmtError>::new(v)),
            _ => Err(FmtError::BadToken),
        }
    }

    fn deserialize_tuple<V: de::Visitor<'de>>(mut self, len: usize, visitor: V) -> Result<V::Value, FmtError> {
        // a self-describing format knows how many elements the sequence really holds; the other
        // kind trusts the caller's `len`
        let n = match self.next()? {
            Token::TupleStart(n) => n,
            _ => return Err(FmtError::BadToken),
        };
        let remaining = if self.input.self_describing { n } else { len };
        let hint = self.input.self_describing;
        let value = visitor.visit_seq(Seq { input: &mut *self.input, remaining, hint })?;
        match self.next()? {
            Token::TupleEnd => Ok(value),
            _ => Err(FmtError::BadToken),
        }
    }

    serde::forward_to_deserialize_any! {
        bool i8 i16 i32 i64 i128 u8 u16 u32 u64 u128 f32 f64 char str string
        bytes byte_buf unit unit_struct newtype_struct seq
        tuple_struct map struct enum identifier ignored_any
    }
}

pub struct Seq<'a, 'b> {
    input: &'b mut Input<'a>,
    remaining: usize,
    hint: bool,
}

impl<'de, 'a, 'b> de::SeqAccess<'de> for Seq<'a, 'b> {
    type Error = FmtError;
    fn next_element_seed<T: de::DeserializeSeed<'de>>(&mut self, seed: T) -> Result<Option<T::Value>, FmtError> {
        if self.remaining == 0 {
            return Ok(None);
        }
        // a sequence that ends early has no element left to hand out
        if self.input.pos < self.input.len && self.input.toks[self.input.pos] == Token::TupleEnd {
            return Ok(None);
        }
        self.remaining -= 1;
        seed.deserialize(De { input: &mut *self.input }).map(Some)
    }
    fn size_hint(&self) -> Option<usize> {
        if self.hint { Some(self.remaining) } else { None }
    }
}

"""Engines: each `run_*` returns a UnitResult.  Nothing here decides a property; check.py does."""
import hashlib
import json
import os
import re
import shutil
import subprocess
import sys
import time

sys.path.insert(0, os.path.dirname(os.path.abspath(__file__)))
import vx  # noqa: E402

VERIF = os.path.dirname(os.path.dirname(os.path.abspath(__file__)))
REPO = os.environ.get('VERIF_REPO', '/repo')
BUILD = os.path.join(VERIF, 'build')

PASS, VIOLATION, INCONCLUSIVE = 'pass', 'violation', 'inconclusive'

# messages that mean "an obligation was generated and the solver could not discharge it"
_VERIF_ERRORS = (
    'postcondition not satisfied', 'precondition not satisfied', 'assertion failed',
    'loop invariant not satisfied', 'invariant not satisfied at end of loop body',
    'invariant not satisfied before loop', 'possible arithmetic underflow/overflow',
    'possible division by zero', 'decreases not satisfied', 'possible bit shift underflow/overflow',
    'unreachable', 'cannot show', 'loop ensures not satisfied', 'ensures not satisfied',
    'recommendation not met', 'constructed value may fail to meet its declared type invariant',
    'unable to prove', 'could not prove', 'failed to satisfy', 'possible integer overflow',
)
_LIMIT_ERRORS = ('Resource limit (rlimit) exceeded', 'rlimit')


class UnitResult:
    def __init__(self, name, engine):
        self.name = name
        self.engine = engine
        self.status = PASS
        self.reason = ''
        self.obligations = 0
        self.discharged = 0
        self.solver_s = 0.0
        self.wall_s = 0.0
        self.functions = []        # functions under contract (dicts)
        self.assumptions = []
        self.failures = []         # dicts: function, message, out_line, repo_file, repo_line, tags, text
        self.bounded = None        # description of the bound if the unit is a bounded stand-in
        self.extra = {}
        self.cmd = ''
        self.raw = ''

    def to_json(self):
        return {k: getattr(self, k) for k in ('name', 'engine', 'status', 'reason', 'obligations',
                                              'discharged', 'solver_s', 'wall_s', 'functions',
                                              'assumptions', 'failures', 'bounded', 'extra', 'cmd')}


def _sh(cmd, timeout, cwd=None, env=None):
    t0 = time.time()
    e = dict(os.environ)
    e.update({'CARGO_NET_OFFLINE': 'true'})
    if env:
        e.update(env)
    try:
        p = subprocess.run(cmd, cwd=cwd, env=e, capture_output=True, text=True, timeout=timeout)
        return p.returncode, p.stdout, p.stderr, time.time() - t0, False
    except subprocess.TimeoutExpired as ex:
        out = ex.stdout.decode() if isinstance(ex.stdout, bytes) else (ex.stdout or '')
        err = ex.stderr.decode() if isinstance(ex.stderr, bytes) else (ex.stderr or '')
        return -9, out, err, time.time() - t0, True


# ------------------------------------------------------------------------------------------------
# Engine V
_canary_ok = None


def _cleanup_old(root, keep_s=3600):
    """drop per-process scratch directories older than an hour"""
    try:
        now = time.time()
        for n in os.listdir(root):
            p = os.path.join(root, n)
            if n.startswith('p') and os.path.isdir(p) and p != os.path.join(root, 'p%d' % os.getpid()) and now - os.path.getmtime(p) > keep_s:
                shutil.rmtree(p, ignore_errors=True)
    except OSError:
        pass


def verus_canary():
    """a deliberately false assertion must FAIL: guards against a dead solver / silent success"""
    global _canary_ok
    if _canary_ok is not None:
        return _canary_ok
    d = os.path.join(BUILD, 'obligations', 'p%d' % os.getpid())
    os.makedirs(d, exist_ok=True)
    p = os.path.join(d, 'canary.rs')
    open(p, 'w').write('use vstd::prelude::*;\nverus! {\nproof fn canary(x: int) { assert(x + 1 == x); }\n'
                       'proof fn alive(x: int) ensures x + 1 > x { }\n}\nfn main() {}\n')
    rc, out, err, _, to = _sh(['verus', p, '--output-json'], 120, cwd=d)
    try:
        j = json.loads(out)
        vr = j['verification-results']
        _canary_ok = (vr['errors'] == 1 and vr['verified'] == 1)
    except Exception:
        _canary_ok = False
    return _canary_ok


_TAG = re.compile(r'//\s*\[((?:C\d+)(?:\s*,\s*C\d+)*)\]')


def run_verus(unit, rlimit=None, extra_args=()):
    """unit: template basename under contracts/ (without .rs.tpl)"""
    r = UnitResult(unit, 'verus')
    t0 = time.time()
    tpl = os.path.join(VERIF, 'contracts', unit + '.rs.tpl')
    # one directory per process: two checks running at the same time must not share files
    outdir = os.path.join(BUILD, 'obligations', 'p%d' % os.getpid())
    os.makedirs(outdir, exist_ok=True)
    _cleanup_old(os.path.join(BUILD, 'obligations'))
    try:
        rend = vx.render(tpl, REPO)
    except vx.Inconclusive as e:
        r.status, r.reason = INCONCLUSIVE, 'extraction: %s' % e
        r.wall_s = time.time() - t0
        return r
    path = os.path.join(outdir, unit + '.rs')
    # Callees the extracted functions call but the template does not name (e.g. a helper added by
    # a later change) are pulled in mechanically, WITHOUT a contract: the caller is then checked
    # against `true` for them, so a helper that breaks the caller's postcondition fails there.
    auto = []
    for attempt in range(4):
        open(path, 'w').write(rend['text'])
        rc0, out0, err0, _, _ = _sh(['verus', path, '--no-verify', '--triggers-mode', 'silent'], 300, cwd=outdir)
        missing = re.findall(r"no method named `(\w+)` found for (?:struct|enum|mutable reference|reference) `(?:&(?:mut )?)?([A-Za-z_][A-Za-z0-9_]*)", err0)
        missing += [(m, None) for m in re.findall(r"cannot find function `(\w+)` in this scope", err0)]
        added = False
        for (fn_name, ty) in dict.fromkeys(missing):
            if (fn_name, ty) in [(a[0], a[1]) for a in auto]:
                continue
            for rel in dict.fromkeys(f['file'] for f in rend['functions']):
                try:
                    src = vx.Source(REPO, rel)
                except vx.Inconclusive:
                    continue
                cands = vx.find_method(src, ty, fn_name) if ty else vx.find_free_fn(src, fn_name)
                if cands:
                    header, selector = cands[0]
                    try:
                        extra = vx.render_extra(REPO, rel, header, selector)
                    except vx.Inconclusive:
                        continue
                    idx = rend['text'].rfind('} // verus!')
                    if idx < 0:
                        break
                    rend['text'] = rend['text'][:idx] + extra + '\n' + rend['text'][idx:]
                    auto.append((fn_name, ty, rel, selector))
                    added = True
                    break
        if not added:
            break
    r.extra['auto_extracted_callees'] = ['%s (%s) from %s' % (a[0], a[3], a[2]) for a in auto]
    open(path, 'w').write(rend['text'])
    json.dump({str(k): v for k, v in rend['linemap'].items()}, open(path + '.linemap.json', 'w'))
    r.functions = rend['functions']
    lines = rend['text'].split('\n')
    # minimum obligation count and declared assumptions come from the template header
    m = re.search(r'^//!min-verified:\s*(\d+)', rend['text'], re.M)
    min_verified = int(m.group(1)) if m else 1
    for m in re.finditer(r'^//!assume:\s*(.*)$', rend['text'], re.M):
        r.assumptions.append(m.group(1).strip())
    # mechanical scan for trusted constructs
    scan = []
    for n, l in enumerate(lines, 1):
        code = l.split('//')[0]
        for kw in ('assume(', 'admit(', 'external_body', 'assume_specification', 'external_fn_specification',
                   'external_type_specification', '#[verifier::external]', 'uninterp'):
            if kw in code:
                scan.append('%s.rs:%d: %s' % (unit, n, code.strip()[:120]))
    r.extra['trusted_constructs_scan'] = scan
    if not verus_canary():
        r.status, r.reason = INCONCLUSIVE, 'vacuity guard: canary (a false assertion) did not fail'
        r.wall_s = time.time() - t0
        return r
    cmd = ['verus', path, '--output-json', '--time', '--triggers-mode', 'silent', '--multiple-errors', '5']
    if rlimit:
        cmd += ['--rlimit', str(rlimit)]
    cmd += list(extra_args)
    r.cmd = ' '.join(cmd)
    rc, out, err, wall, timed_out = _sh(cmd, 900, cwd=outdir)
    r.raw = err[-20000:]
    r.wall_s = time.time() - t0
    if timed_out:
        r.status, r.reason = INCONCLUSIVE, 'verus timed out'
        return r
    try:
        j = json.loads(out)
    except Exception:
        r.status, r.reason = INCONCLUSIVE, 'verus produced no JSON (rc=%s): %s' % (rc, err[-2000:])
        return r
    vr = j.get('verification-results', {})
    r.discharged = int(vr.get('verified', 0))
    nerr = int(vr.get('errors', 0))
    r.obligations = r.discharged + nerr
    try:
        r.solver_s = j['times-ms']['smt']['total'] / 1000.0
    except Exception:
        pass
    fb = []
    try:
        for mod in j['times-ms']['smt']['smt-run-module-times']:
            fb += mod.get('function-breakdown', [])
    except Exception:
        pass
    r.extra['per_function'] = [{'function': f['function'], 'ms': f.get('time', 0), 'ok': f.get('success')} for f in fb]
    # parse diagnostics
    errs = _parse_rustc_errors(err, os.path.basename(path))
    if vr.get('encountered-vir-error') or (rc != 0 and nerr == 0 and not vr.get('success', False)):
        msgs = '; '.join(e['message'] for e in errs[:3]) or err[-1500:]
        r.status, r.reason = INCONCLUSIVE, 'verus rejected the unit (not a verification failure): %s' % msgs
        return r
    fails = []
    limit = False
    other = []
    for e in errs:
        msg = e['message']
        if any(k in msg for k in _LIMIT_ERRORS):
            limit = True
            continue
        if msg.startswith('aborting due to'):
            continue
        if any(msg.startswith(k) or k in msg for k in _VERIF_ERRORS):
            fails.append(e)
        else:
            other.append(e)
    if other:
        r.status = INCONCLUSIVE
        r.reason = 'verus error outside the verification-failure vocabulary: %s' % other[0]['message']
        return r
    if nerr == 0 and rc == 0 and vr.get('success'):
        if r.discharged < min_verified:
            r.status = INCONCLUSIVE
            r.reason = 'vacuity guard: %d obligations verified, template expects >= %d' % (r.discharged, min_verified)
        return r
    if not fails and limit:
        r.status, r.reason = INCONCLUSIVE, 'solver resource limit exceeded'
        return r
    if not fails:
        r.status, r.reason = INCONCLUSIVE, 'verus reports errors but none could be parsed: %s' % err[-1500:]
        return r
    # attribute failures: enclosing extracted function, clause tags, repo line
    fn_at = _function_index(lines)
    for e in fails:
        ln = e['line']
        fn, props = fn_at(ln)
        if '(auto-extracted callee: no contract)' in fn:
            # obligations inside a function that carries no contract (overflow, panics of its own)
            # are not part of any property statement: noted, not a verdict
            r.extra.setdefault('ignored_failures_in_uncontracted_callees', []).append('%s: %s' % (fn, e['message']))
            continue
        tags = []
        for l2 in (e.get('lines') or [ln]):
            if 1 <= l2 <= len(lines):
                tm = _TAG.search(lines[l2 - 1])
                if tm:
                    tags += [t.strip() for t in tm.group(1).split(',')]
        rp = rend['linemap'].get(ln)
        r.failures.append({'function': fn, 'function_props': props, 'message': e['message'], 'out_line': ln,
                           'repo_file': rp[0] if rp else None, 'repo_line': rp[1] if rp else None,
                           'tags': sorted(set(tags)), 'text': lines[ln - 1].strip() if 1 <= ln <= len(lines) else '',
                           'secondary': e.get('secondary', [])})
    if not r.failures:
        r.status = INCONCLUSIVE
        r.reason = 'only obligations inside auto-extracted, uncontracted callees failed: %s' % r.extra.get('ignored_failures_in_uncontracted_callees')
        return r
    r.status = VIOLATION
    r.reason = '%d obligation(s) not discharged' % len(r.failures)
    return r


def _parse_rustc_errors(err, fname):
    """[{message, line, lines:[...], secondary:[(line,text)]}] from rustc-style human output"""
    res = []
    cur = None
    for l in err.split('\n'):
        m = re.match(r'^error(?:\[E\d+\])?: (.*)$', l)
        if m:
            cur = {'message': m.group(1).strip(), 'line': 0, 'lines': [], 'secondary': []}
            res.append(cur)
            continue
        if re.match(r'^(warning|note)(\[.*\])?: ', l):
            cur = None if l.startswith('warning') else cur
            continue
        if cur is None:
            continue
        m = re.match(r'^\s*--> (.*?):(\d+):(\d+)', l)
        if m and os.path.basename(m.group(1)) == fname:
            if not cur['line']:
                cur['line'] = int(m.group(2))
            cur['lines'].append(int(m.group(2)))
            continue
        m = re.match(r'^\s*(\d+)\s*\|(.*)$', l)
        if m:
            cur['lines'].append(int(m.group(1)))
            continue
    for e in res:
        e['lines'] = sorted(set(e['lines']))
    return res


def _function_index(lines):
    """maps an output line to (enclosing extracted-or-template function name, props) using the
    `// from ...` markers, `//!props` lines and plain `fn` headers of the rendered file."""
    marks = []
    for n, l in enumerate(lines, 1):
        m = re.match(r'^// from (\S+):(\d+)\s+\[(.*?)\](.*)$', l)
        if m:
            marks.append((n, m.group(3) + m.group(4).rstrip(), None))
            continue
        m = re.match(r'^\s*(?:pub\s+)?(?:open\s+|closed\s+)?(?:proof|spec)\s+fn\s+(\w+)', l)
        if m:
            marks.append((n, 'lemma ' + m.group(1), None))
    props = {}
    for n, l in enumerate(lines, 1):
        m = re.match(r'^//!props\s+(.*?)\s*:\s*(.*)$', l)
        if m:
            props[m.group(1).strip()] = [p.strip() for p in m.group(2).split(',')]

    def at(ln):
        best = None
        for (n, name, _) in marks:
            if n <= ln:
                best = name
            else:
                break
        if best is None:
            return ('<template>', [])
        short = best.split('::')[-1].strip()
        return (best, props.get(short, props.get(best, [])))
    return at


# ------------------------------------------------------------------------------------------------
# Engine X
def build_bx(binary='bx'):
    d = os.path.join(VERIF, 'bx')
    shutil.copyfile(os.path.join(REPO, 'Cargo.lock'), os.path.join(d, 'Cargo.lock'))
    tgt = os.path.join(BUILD, 'bx-target')
    rc, out, err, wall, to = _sh(['cargo', 'build', '--release', '--offline', '--quiet', '--bin', binary], 1800, cwd=d,
                                 env={'CARGO_TARGET_DIR': tgt})
    if rc != 0:
        return None, err[-3000:]
    return os.path.join(tgt, 'release', binary), ''


def _tree_hash(extra):
    """hash of every source file a native bx run depends on (the truc crates of /repo, bx itself)"""
    h = hashlib.sha256()
    for root_dir in (os.path.join(REPO, 'truc', 'src'), os.path.join(REPO, 'truc_runtime', 'src'), os.path.join(VERIF, 'bx', 'src')):
        for root, dirs, files in os.walk(root_dir):
            dirs.sort()
            for f in sorted(files):
                fp = os.path.join(root, f)
                h.update(fp.encode())
                h.update(open(fp, 'rb').read())
    for f in (os.path.join(REPO, 'Cargo.lock'), os.path.join(REPO, 'truc', 'Cargo.toml'), os.path.join(VERIF, 'bx', 'Cargo.toml')):
        h.update(open(f, 'rb').read())
    h.update(json.dumps(extra, sort_keys=True).encode())
    return h.hexdigest()[:24]


def run_bx(name, strategy, bounds, tier, max_viol=20):
    r = UnitResult(name, 'bx (native bounded-exhaustive execution of the strategy contract)')
    t0 = time.time()
    # deterministic native execution: the verdict for unchanged sources and bounds is reused
    ckey = _tree_hash({'unit': name, 'strategy': strategy, 'bounds': bounds, 'v': max_viol})
    cfile = os.path.join(BUILD, 'bx-cache', '%s-%s.json' % (name, ckey))
    if os.path.exists(cfile) and not os.environ.get('VERIF_NOCACHE'):
        j = json.load(open(cfile))
        return _bx_result(r, j, strategy, bounds, t0, cached=True)
    exe, err = build_bx()
    if exe is None:
        r.status, r.reason = INCONCLUSIVE, 'bx does not build against the current tree: %s' % err
        r.wall_s = time.time() - t0
        return r
    outp = os.path.join(BUILD, 'bx-%s-%d.json' % (name, os.getpid()))
    cmd = [exe, 'strategy', '--name', strategy, '--tier', tier, '--max-data', str(bounds['max_data']),
           '--max-add', str(bounds['max_add']), '--window', str(bounds['window']),
           '--shapes', bounds['shapes'], '--out', outp, '--max-violations', str(max_viol)]
    r.cmd = ' '.join(cmd)
    rc, out, err, wall, to = _sh(cmd, bounds.get('timeout', 3600))
    r.wall_s = time.time() - t0
    if to or rc not in (0, 1):
        r.status, r.reason = INCONCLUSIVE, 'bx rc=%s timeout=%s %s' % (rc, to, err[-1000:])
        return r
    j = json.load(open(outp))
    try:
        os.remove(outp)
    except OSError:
        pass
    os.makedirs(os.path.dirname(cfile), exist_ok=True)
    json.dump(j, open(cfile, 'w'))
    return _bx_result(r, j, strategy, bounds, t0, cached=False)


def _bx_result(r, j, strategy, bounds, t0, cached):
    r.extra = dict(j)
    r.extra['cached'] = cached
    r.wall_s = time.time() - t0
    r.obligations = j['evaluations']
    r.discharged = j['evaluations'] - j['violations_total']
    r.functions = [{'kind': 'fn', 'selector': 'fn %s' % s, 'file': 'truc/src/record/definition/builder/native/variant/%s.rs' % ('dummy' if s.startswith('append') else s), 'line': 0,
                    'sha256': 'executed natively (linked from /repo)'} for s in (['simple', 'basic', 'append_data', 'append_data_reverse'] if strategy == 'all' else [strategy])]
    r.bounded = ('BOUNDED: every WF pre-state with <= %d data in a %d-byte window over shapes {%s}, every removal '
                 'subset, every sequence of <= %d additions' % (bounds['max_data'], bounds['window'], bounds['shapes'], bounds['max_add']))
    if j['violations_total']:
        r.status = VIOLATION
        r.reason = '%d contract violations' % j['violations_total']
        for v in j['violations']:
            r.failures.append({'function': strategy, 'message': '; '.join(v['clauses'][:4]), 'case': v['case'],
                               'clauses': v['clauses'], 'confirmed': v['confirmed_through_public_api'], 'tags': []})
    return r


def bx_replay(path):
    exe, err = build_bx()
    if exe is None:
        return 2, err
    rc, out, err, wall, to = _sh([exe, 'replay', path], 600)
    return rc, out + err


def run_bx_history(name, maxlen):
    """bounded-exhaustive request sequences against the real generic builder, compared with the
    property's own set algebra (stand-in for the two generic append strategies, and an end-to-end
    cross-check of the builder contracts proved per function by Verus)"""
    r = UnitResult(name, 'bx (native bounded-exhaustive request sequences against the builder state machine)')
    t0 = time.time()
    exe, err = build_bx()
    if exe is None:
        r.status, r.reason = INCONCLUSIVE, 'bx does not build against the current tree: %s' % err
        return r
    cmd = [exe, 'builder-history', '--max-len', str(maxlen)]
    r.cmd = ' '.join(cmd)
    rc, out, err, wall, to = _sh(cmd, 3600)
    r.wall_s = time.time() - t0
    try:
        j = json.loads(out)
    except Exception:
        r.status, r.reason = INCONCLUSIVE, 'bx builder-history rc=%s: %s' % (rc, (out + err)[-800:])
        return r
    r.obligations = j['evaluations']
    r.discharged = j['evaluations'] - (1 if j.get('violation') else 0)
    r.bounded = ('BOUNDED: every sequence of <= %d requests over {add a|b|c, remove id 0..3, close with generic append_data, close with generic '
                 'append_data_reverse}; after every request the observable state (current data, variants, identities, lookups by name) is compared with '
                 'last - removed + added' % maxlen)
    r.extra = {'evaluations': j['evaluations'], 'distinct_nontrivial': j['evaluations'], 'samples': [{'max_len': maxlen, 'alphabet': 'add a|b|c, remove 0..3, close, close_reverse'}]}
    if j.get('violation'):
        v = j['violation']
        r.status = VIOLATION
        r.reason = 'a request sequence violates the builder contract'
        r.failures.append({'function': 'builder history', 'message': '; '.join(v['clauses'][:3]), 'history': v['history'], 'clauses': v['clauses'],
                           'tags': ['C12'], 'props': ['C12', 'C03']})
    return r


def run_bx_convert(name, maxlen):
    """bounded stand-in for convert_record_definition (C20)"""
    r = UnitResult(name, 'bx (native bounded-exhaustive execution of the conversion helper against its postcondition)')
    t0 = time.time()
    exe, err = build_bx()
    if exe is None:
        r.status, r.reason = INCONCLUSIVE, 'bx does not build against the current tree: %s' % err
        return r
    cmd = [exe, 'convert', '--max-len', str(maxlen)]
    r.cmd = ' '.join(cmd)
    rc, out, err, wall, to = _sh(cmd, 7200)
    r.wall_s = time.time() - t0
    try:
        j = json.loads(out)
    except Exception:
        r.status, r.reason = INCONCLUSIVE, 'bx convert rc=%s: %s' % (rc, (out + err)[-800:])
        return r
    r.obligations = j['conversions']
    r.discharged = j['conversions'] - (1 if j.get('violation') else 0)
    r.bounded = ('BOUNDED: every source definition built by a request sequence of <= %d requests over {add a|b|c with shape 1/1 (uninit-allowed), 4/4 or 0/1; '
                 'remove id 0..2; close with simple or basic}, replayed through convert_record_definition into a native builder (simple), a native builder '
                 '(append_data) and a generic builder' % maxlen)
    r.extra = {'evaluations': j['conversions'], 'distinct_nontrivial': j['multi_variant_sources'] * 3,
               'rule': 'one evaluation = one replay of one source definition into one target; non-trivial = the source has at least two variants',
               'samples': [j.get('sample')], 'sources': j['sources']}
    if j.get('violation'):
        v = j['violation']
        r.status = VIOLATION
        r.reason = 'a replay violates the postcondition of the conversion helper'
        r.failures.append({'function': 'convert_record_definition', 'message': '; '.join(v['clauses'][:3]), 'convert_case': v, 'clauses': v['clauses'],
                           'tags': ['C20'], 'props': ['C20']})
    return r


def run_bx_types(name, depth):
    """bounded stand-in for the type-name pipeline (C17)"""
    r = UnitResult(name, 'bx (native execution of the type-name pipeline over a grammar of types)')
    t0 = time.time()
    exe, err = build_bx('bx_types')
    if exe is None:
        r.status, r.reason = INCONCLUSIVE, 'bx_types does not build against the current tree: %s' % err
        return r
    cmd = [exe, '--depth', str(depth)]
    r.cmd = ' '.join(cmd)
    rc, out, err, wall, to = _sh(cmd, 1800)
    r.wall_s = time.time() - t0
    try:
        j = json.loads(out[:out.index('\n}') + 2])
    except Exception:
        r.status, r.reason = INCONCLUSIVE, 'bx types rc=%s: %s' % (rc, (out + err)[-800:])
        return r
    r.obligations = j['checked'] + j['lookups']
    r.discharged = r.obligations - len(j['violations'])
    r.bounded = ('BOUNDED: every type built from {u8, u32, usize, bool, String, ()} by <= %d nested applications of Box<_>, Vec<_>, Option<_>, [_; 3], Box<[_]>, '
                 '(_, u8), Result<_, String>, plus 12 user-crate types (plain, generic, nested modules, and paths ending with the whole module path of String / Vec / Box / Option / Result) under one application '
                 '(%d distinct types in all); five spellings per type for the table lookup' % (depth, j['distinct_types']))
    r.extra = {'evaluations': j['checked'] + j['lookups'], 'distinct_nontrivial': j['distinct_types'],
               'rule': 'one evaluation = one type whose recorded name is compared with its source tokens, or one table lookup under one spelling; distinct = distinct types',
               'samples': j['samples']}
    r.functions = [{'kind': 'fn', 'selector': s, 'file': f, 'line': 0, 'sha256': 'executed natively (linked from /repo)'} for f, s in
                   (('truc/src/record/type_name.rs', 'truc_type_name / truc_dynamic_type_name (through HostTypeResolver::type_info and StaticTypeResolver::dynamic_type_info)'),
                    ('truc/src/record/type_resolver.rs', 'StaticTypeResolver::add_type / dynamic_type_info'))]
    if j['violations']:
        r.status = VIOLATION
        r.reason = '%d types or lookups violate the contract' % len(j['violations'])
        r.failures.append({'function': 'truc_type_name / table lookup', 'message': '; '.join(j['violations'][:3]), 'types_case': j['violations'],
                           'tags': ['C17'], 'props': ['C17']})
    return r


def run_bx_determinism(name, maxlen):
    """bounded stand-in for C19: every history within the bound replayed twice in one process, and the
    digest of all offsets and generated texts compared between two separately started processes"""
    r = UnitResult(name, 'bx (native execution: same request sequences replayed twice in-process and in two processes)')
    t0 = time.time()
    exe, err = build_bx()
    if exe is None:
        r.status, r.reason = INCONCLUSIVE, 'bx does not build against the current tree: %s' % err
        return r
    cmd = [exe, 'determinism', '--max-len', str(maxlen)]
    r.cmd = ' '.join(cmd) + '   (run twice, digests compared)'
    runs = []
    for k in range(2):
        rc, out, err, wall, to = _sh(cmd, 3600, env={'VERIF_PROCESS': str(k)})
        try:
            runs.append(json.loads(out))
        except Exception:
            r.status, r.reason = INCONCLUSIVE, 'bx determinism rc=%s: %s' % (rc, (out + err)[-800:])
            return r
    r.wall_s = time.time() - t0
    a, b = runs
    r.obligations = a['histories'] * 2 + 1
    r.bounded = ('BOUNDED: every definition history of <= %d requests over {add a|b|c with shape 1/1, 4/4 or 0/1; remove id 0..2; close with simple or basic}; '
                 'plus %d wide histories (5..12 additions per variant, 10 shape patterns over 7 shapes, both strategies, optional second variant); '
                 'offsets, text rendering and generated code under three fragment selections (default, +clone, +clone+serde)' % (maxlen, a.get('wide_histories', 0)))
    r.extra = {'evaluations': a['histories'] * 2, 'distinct_nontrivial': a['histories'],
               'rule': 'one evaluation = one history replayed and generated once; each history is replayed twice per process, in two processes',
               'samples': [a.get('sample'), {'digest_process_1': a['digest'], 'digest_process_2': b['digest'], 'generated_texts_per_process': a['texts']}]}
    r.functions = [{'kind': 'fn', 'selector': s, 'file': f, 'line': 0, 'sha256': 'executed natively (linked from /repo)'} for f, s in
                   (('truc/src/generator/mod.rs', 'generate'), ('truc/src/record/definition/builder/native/variant/simple.rs', 'simple'),
                    ('truc/src/record/definition/builder/native/variant/basic.rs', 'basic'))]
    viol = a.get('violation') or b.get('violation')
    if viol:
        r.status = VIOLATION
        r.reason = 'replaying a history twice in one process gives different results'
        r.failures.append({'function': 'builder + generate', 'message': viol['clauses'][0], 'det_case': viol, 'clauses': viol['clauses'], 'tags': ['C19'], 'props': ['C19']})
    elif a['digest'] != b['digest']:
        r.status = VIOLATION
        r.reason = 'two separately started processes generate different offsets or text'
        r.failures.append({'function': 'builder + generate', 'message': 'C19: digest over all offsets and generated texts differs between two processes (%s vs %s)' % (a['digest'], b['digest']),
                           'det_case': {'history': None, 'digests': [a['digest'], b['digest']]}, 'clauses': ['C19: cross-process digest mismatch'], 'tags': ['C19'], 'props': ['C19']})
    r.discharged = r.obligations - len(r.failures)
    return r


def run_gk_native(name, harness_filter=None):
    """bounded stand-in for the panic clause of C16: the real generated clone / clone_from of every corpus
    module (thorough corpus: native execution is cheap) executed natively with a panic injected into the
    j-th clone of a droppable field, for every j"""
    r = UnitResult(name, 'native execution of generated code (gk_native)')
    t0 = time.time()
    gk = os.path.join(VERIF, 'gk')
    try:
        shutil.copyfile(os.path.join(REPO, 'Cargo.lock'), os.path.join(gk, 'Cargo.lock'))
    except Exception:
        pass
    seed = str(int(os.environ.get('VERIF_SEED', '0') or 0))
    env = {'GK_TIER': 'thorough', 'GK_SEED': seed, 'CARGO_TARGET_DIR': os.path.join(BUILD, 'gk-native'), 'CARGO_NET_OFFLINE': 'true'}
    cmd = ['cargo', 'run', '--offline', '--quiet', '--bin', 'gk_native'] + ([harness_filter] if harness_filter else [])
    r.cmd = 'cd %s && GK_TIER=thorough GK_SEED=%s %s' % (gk, seed, ' '.join(cmd))
    rc, out, err, wall, to = _sh(cmd, 1800, cwd=gk, env=env)
    r.wall_s = time.time() - t0
    line = [l for l in out.split('\n') if l.startswith('{"ran"')]
    if not line:
        r.status, r.reason = INCONCLUSIVE, 'gk_native does not build or run against the current tree (rc=%s): %s' % (rc, (err or out)[-600:])
        return r
    j = json.loads(line[-1])
    r.obligations = j['ran']
    r.bounded = ('BOUNDED: corpus modules with the clone fragment (thorough corpus: fixed modules + 12 random ones from VERIF_SEED), every variant, '
                 'a panic injected into the j-th clone of a droppable field for every j, clone and clone_from; field values are fixed')
    mods = sorted(set(h.split('::')[0] for h in j['harnesses']))
    r.extra = {'evaluations': j['ran'], 'distinct_nontrivial': j['ran'], 'samples': j['harnesses'][:2],
               'rule': 'one evaluation = one (module, variant, operation, panic position) executed natively; all are non-trivial (the injected panic must be reached)',
               'programs': mods}
    r.functions = [{'kind': 'fn', 'selector': 'generated Clone::clone / Clone::clone_from of corpus modules ' + ', '.join(mods), 'file': 'truc/src/generator/fragment/clone.rs', 'line': 0,
                    'sha256': 'generated on this run by /repo\'s generator'}]
    if j['ran'] == 0 and not harness_filter:
        r.status, r.reason = INCONCLUSIVE, 'vacuity guard: no native harness ran'
        return r
    for f in j['failed']:
        if 'vacuity' in f['message']:
            r.status, r.reason = INCONCLUSIVE, '%s: %s' % (f['harness'], f['message'])
            return r
    for f in j['failed']:
        r.failures.append({'function': f['harness'], 'message': f['message'], 'native_harness': f['harness'], 'clauses': [f['message']],
                           'tags': ['C16', 'C06'], 'props': ['C16', 'C06']})
    if r.failures:
        r.status = VIOLATION
        r.reason = '%d native harness(es) failed' % len(r.failures)
    r.discharged = r.obligations - len(r.failures)
    return r


def run_bx_vec(name, maxlen, case=None):
    """bounded stand-in for the panic half of C09 (Kani does not unwind): native bounded-exhaustive execution of
    try_convert_vec_in_place with a converter that fails (error or panic, three phases) at every position"""
    r = UnitResult(name, 'bx (native bounded-exhaustive execution of try_convert_vec_in_place with a failing converter)')
    t0 = time.time()
    exe, err = build_bx('bx_vec')
    if exe is None:
        r.status, r.reason = INCONCLUSIVE, 'bx_vec does not build against the current tree: %s' % err
        return r
    cmd = [exe, '--case', json.dumps(case)] if case else [exe, '--max-len', str(maxlen)]
    r.cmd = ' '.join(cmd[:3])
    rc, out, err, wall, to = _sh(cmd, 1800)
    r.wall_s = time.time() - t0
    if case:
        r.status = VIOLATION if rc == 1 else (PASS if rc == 0 else INCONCLUSIVE)
        r.reason = out[-1500:]
        return r
    try:
        j = json.loads(out.strip().split('\n')[-1])
    except Exception:
        r.status, r.reason = INCONCLUSIVE, 'bx_vec rc=%s: %s' % (rc, (out + err)[-800:])
        return r
    r.obligations = j['cases']
    r.bounded = ('BOUNDED: vector length <= %d; every failure position, every converted/abandoned pattern of the preceding elements, failure kinds {error, panic} x '
                 'phases {at once, after dropping the input, after building the output}; element families: drop-counted tokens, 80-byte values, align(32) values, '
                 'Box-owning values; ledger of drops, call counter, counting allocator, identity of the error value / panic payload' % maxlen)
    r.extra = {'evaluations': j['cases'], 'distinct_nontrivial': j['panic_cases'], 'samples': [j.get('sample')],
               'rule': 'one evaluation = one (family, length, failure position, pattern, kind, phase) executed natively; non-trivial = the converter panics (the half Kani cannot reach)'}
    r.functions = [{'kind': 'fn', 'selector': 'try_convert_vec_in_place (executed natively, linked from /repo)', 'file': 'truc_runtime/src/convert.rs', 'line': 0, 'sha256': 'executed natively'}]
    if j.get('violation'):
        v = j['violation']
        r.status = VIOLATION
        r.reason = 'a native execution violates the postcondition of the conversion'
        props = sorted(set(c[:3] for c in v['clauses']))
        r.failures.append({'function': 'try_convert_vec_in_place', 'message': '; '.join(v['clauses'][:3]), 'vec_case': v['case'], 'clauses': v['clauses'],
                           'tags': props, 'props': props})
    r.discharged = r.obligations - len(r.failures)
    return r


def run_bx_resolver(name):
    """bounded stand-in / second opinion for C18: every typed entry point of the native builder over a matrix of
    types under a synthetic resolver whose answers differ from the host's for every type"""
    r = UnitResult(name, 'bx (native execution of the native builder entry points under a synthetic resolver)')
    t0 = time.time()
    exe, err = build_bx()
    if exe is None:
        r.status, r.reason = INCONCLUSIVE, 'bx does not build against the current tree: %s' % err
        return r
    cmd = [exe, 'resolver']
    r.cmd = ' '.join(cmd)
    rc, out, err, wall, to = _sh(cmd, 600)
    r.wall_s = time.time() - t0
    try:
        j = json.loads(out[:out.rindex('}') + 1])
    except Exception:
        r.status, r.reason = INCONCLUSIVE, 'bx resolver rc=%s: %s' % (rc, (out + err)[-800:])
        return r
    r.obligations = j.get('evaluations', 1)
    r.bounded = ('BOUNDED: 14 types (plain, compound, heap-owning, odd-sized, zero-size with alignment 1 / 8 / 16) x add_datum, add_datum_override (4 override masks; 16 for one type), '
                 '9 Copy types x add_datum_allow_uninit, add_dynamic_datum, copy_datum; one synthetic resolver whose every answer differs from the host\'s')
    r.extra = {'evaluations': r.obligations, 'distinct_nontrivial': r.obligations, 'samples': ['add_datum::<[u64; 0]> under a resolver answering size 5, alignment 16'],
               'rule': 'one evaluation = one entry point called for one type (and override mask); all are non-trivial: the synthetic answer differs from the host\'s'}
    r.functions = [{'kind': 'fn', 'selector': 'NativeRecordDefinitionBuilder::{add_datum, add_datum_allow_uninit, add_datum_override, add_dynamic_datum, copy_datum} (executed natively)',
                    'file': 'truc/src/record/definition/builder/native/mod.rs', 'line': 0, 'sha256': 'executed natively'}]
    if j['violations']:
        r.status = VIOLATION
        r.reason = '%d recorded value(s) differ from the resolver\'s answer' % len(j['violations'])
        r.failures.append({'function': 'native builder entry points', 'message': '; '.join(j['violations'][:3]), 'resolver_case': j['violations'][:10], 'clauses': j['violations'][:10],
                           'tags': ['C18'], 'props': ['C18']})
    r.discharged = r.obligations - len(r.failures)
    return r

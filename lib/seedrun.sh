#!/bin/sh
# lib/seedrun.sh <seed dir> <property> : apply the seeded change to /repo, run the check, undo
d=$(cd "$1" && pwd); p=$2
git -C /repo apply "$d/patch.diff" || { echo "patch does not apply"; exit 3; }
cd /verif && ./check "$p" > "/tmp/seedrun_$$.txt" 2>&1; rc=$?
git -C /repo checkout -- . ; git -C /repo clean -fdq
grep -E 'VIOLATION|INCONCLUSIVE|KNOWN|unit ' "/tmp/seedrun_$$.txt" | cut -c1-330
echo "rc=$rc"
rm -f "/tmp/seedrun_$$.txt"
exit $rc

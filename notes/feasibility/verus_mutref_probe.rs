use vstd::prelude::*;
verus! {

pub struct Det { pub offset: usize, pub size: usize, pub align: usize }
pub struct Def { pub id: usize, pub details: Det }
impl Def {
    pub fn details_mut(&mut self) -> (r: &mut Det)
        ensures *r == old(self).details, final(self).id == old(self).id, final(self).details == *final(r)
    { &mut self.details }
}
pub struct Coll { pub data: Vec<Def> }

impl Coll {
    pub fn get_mut(&mut self, id: usize) -> (r: Option<&mut Def>)
        ensures
            r.is_some() == (id < old(self).data@.len()),
            r.is_some() ==> *r.unwrap() == old(self).data@[id as int]
               && final(self).data@ == old(self).data@.update(id as int, *final(r.unwrap())),
    {
        self.data.get_mut(id)
    }
}

fn set(c: &mut Coll, id: usize, off: usize)
    requires id < old(c).data@.len()
    ensures final(c).data@.len() == old(c).data@.len(),
      final(c).data@[id as int].details.offset == off
{
    let datum_mut = c.get_mut(id).unwrap_or_else(|| panic!("datum #{}", id));
    datum_mut.details_mut().offset = off;
}

} // verus!
fn main() {}

// overwritten by ./check --replay with the concrete-playback test Kani printed for a failed harness

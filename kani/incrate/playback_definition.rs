// empty unless a replay is running (see lib/kani_units.py replay)

#!/usr/bin/env python3
"""regenerates /verif/MANIFEST.json from lib/props.py (claimed properties) and the static tables below"""
import json, os, sys
sys.path.insert(0, os.path.dirname(os.path.abspath(__file__)))
import props as P

NOT_APPLICABLE = {
    'C11': 'rejection "by the compiler" is decided by rustc const evaluation / trait solving on text emitted through format!: no obligation a program verifier (Verus, Kani) can generate; DESIGN.md 5.11',
    'C14': 'Send/Sync of the generated record type is inferred by rustc from field types: there is no executable code to put under contract; Kani has no threads; DESIGN.md 5.14',
}
PENDING = 'machinery for this property is not built yet (planned decision in DESIGN.md 0); not claimed until its check runs'

TECH = {
    'C01': 'Verus contracts (strategy contract WF=>WF\') on functions extracted from /repo each run; bounded-exhaustive native execution of the same contract for simple()',
    'C02': 'Verus contracts (alignment/order clauses of WF, align_bytes) on extracted functions; Kani bounded contract of max_size/max_type_align; bounded stand-in for simple()',
    'C03': 'Verus frame clause of the strategy contract on extracted functions; bounded stand-in for simple(); Kani on generated modules for size/align equality',
    'C12': 'Verus: builder invariant preserved by every public operation (functions extracted from /repo each run); strategy membership clause; bounded stand-in for simple()',
    'C18': 'Verus: postcondition of every add_* entry point against an abstract type resolver; add_dynamic_datum: Kani harness-level contract (bounded builder state)',
    'C04': 'Kani: contracts of generated new / new_uninit / accessors / unpack on real generated modules (corpus), symbolic field values',
    'C05': 'Kani: contracts of the four generated From impls and of a conversion chain on real generated modules (corpus)',
    'C06': 'Kani: ghost drop counters + CBMC double-free / memory-leak checks on real generated modules (corpus)',
    'C07': 'Kani: contract of the four storage primitives under symbolic placement + bare-buffer probes + call-site receiver classification of generated modules',
    'C15': 'Kani: contracts of the generated Serialize / Deserialize impls on a real generated module, against an in-harness implementation of serde\'s data model (not serde_json / bincode)',
    'C17': 'bounded stand-in only (no verifier reaches the syn/quote string pipeline): native execution over a grammar of 2400 types, names compared with the source tokens of the type',
    'C19': 'bounded stand-in only (two-run property over functions no verifier reaches): every history within a bound replayed twice in-process and in two processes, outputs compared',
    'C20': 'bounded stand-in only (no verifier reaches the function): native bounded-exhaustive execution of convert_record_definition against its postcondition',
    'C16': 'Kani: contracts of generated clone / clone_from on real generated modules (corpus); panic clause: bounded native stand-in (injected clone panics)',
    'C13': 'Verus: panic-freedom of the text rendering under the variant invariant; Kani: panic-freedom and bounds of max_size / max_type_align on every builder-reachable state (bounded)',
    'C08': 'Kani: postcondition of try_convert_vec_in_place checked with a specification converter, bounded vector length; bounded native stand-in re-checks longer vectors in an optimised build',
    'C09': 'Kani: error-arm postcondition with ghost drop counters and CBMC memory-leak check, bounded vector length; panic half: bounded native stand-in (drop ledger, counting allocator, payload identity)',
    'C10': 'Kani: per type pair the refusal assertion is the only failing check and the converter is unreachable; drop-after-refusal clause: bounded native stand-in',
}

def main():
    props = [json.loads(l) for l in open(os.path.join(P.VERIF, 'properties.jsonl'))]
    checks = []
    na = []
    for p in props:
        pid = p['id']
        if pid in P.PROPERTIES:
            cfg = P.PROPERTIES[pid]
            checks.append({
                'property_id': pid,
                'quick_cmd': './check %s --tier quick' % pid,
                'thorough_cmd': './check %s --tier thorough' % pid,
                'evidence_file': '/verif/evidence/%s.json' % pid,
                'replay_cmd_template': './check --replay {path}',
                'engine': cfg.get('engine', 'verus+kani+bx'),
                'level_claimed': {'category': cfg['level'], 'text': cfg['explanation'], 'design_ref': 'DESIGN.md 5.%d' % int(pid[1:])},
                'level_note': '; '.join(cfg.get('assumptions', []) + cfg.get('unchecked', [])) or 'see evidence assumptions',
                'technique': cfg.get('technique') or TECH.get(pid, 'contract-based deductive verification (Verus / Kani)'),
            })
        else:
            na.append({'property_id': pid, 'reason': NOT_APPLICABLE.get(pid, PENDING)})
    m = {
        'version': 1,
        'setup_cmd': './setup.sh',
        'hooks': {
            'guard': 'cfg(kani)',
            'enable': 'cargo kani sets --cfg kani; harness crates under /verif/kani and /verif/gk depend on /repo crates by path',
            'baseline_off_cmd': 'cd /repo && cargo test --workspace --no-fail-fast --offline',
            'source_commits': P.HOOK_COMMITS,
            'add_only': False,
        },
        'engines': [
            {'name': 'vx+verus', 'path': 'lib/vx.py, contracts/*.rs.tpl', 'serves_properties': [p for p in P.PROPERTIES if any(u['kind'] == 'verus' for u in P.PROPERTIES[p]['units']('quick'))], 'kind_free_text': 'mechanical extraction of real functions + Verus (unbounded deductive proof)'},
            {'name': 'kani', 'path': 'kani/*, gk/', 'serves_properties': [p for p in P.PROPERTIES if any(u['kind'] in ('kani', 'gk') for u in P.PROPERTIES[p]['units']('quick'))], 'kind_free_text': 'Kani/CBMC harnesses stating function contracts on the real crates and on real generated modules'},
            {'name': 'bx', 'path': 'bx/', 'serves_properties': [p for p in P.PROPERTIES if any(u['kind'].startswith('bx') or u['kind'] == 'gkn' for u in P.PROPERTIES[p]['units']('quick'))], 'kind_free_text': 'bounded-exhaustive native execution, labelled bounded: stand-ins for simple(), builder histories, the convert helper, determinism, type names, failing converters (panic clauses), injected clone panics; counterexample finder, replayer'},
        ],
        'checks': checks,
        'not_applicable': na,
        'notes': 'hooks: three cfg(kani) include! modules and one cfg(kani) cover marker in try_convert_vec_in_place (add-only), plus the entry cfg(kani) appended to the existing check-cfg lists of truc/Cargo.toml and truc_runtime/Cargo.toml (hence add_only=false). Bounded native stand-ins (bx, bx_vec, bx_types, gk_native) are labelled in every evidence file and never counted as discharged obligations. exit 0 pass / exit 1 VIOLATION / exit 2 inconclusive (lost anchor, unsupported construct, resource limit: never an alarm). Known findings: known_findings.json.',
    }
    json.dump(m, open(os.path.join(P.VERIF, 'MANIFEST.json'), 'w'), indent=1)
    print('claimed:', [c['property_id'] for c in checks])

if __name__ == '__main__':
    main()

//! gk: real generated modules (emitted by /repo's generator in build.rs) + Kani harnesses derived
//! from the definitions.  See build.rs.
#![allow(static_mut_refs)]
#[macro_use]
extern crate static_assertions;

pub mod support;
pub mod tokfmt;

include!(concat!(env!("OUT_DIR"), "/corpus.rs"));

#!/bin/sh
# lib/seedall.sh [tier] : run every seeded change under /verif/seeded through the check of its property
# (regression test of the machinery's detection power).  Prints one line per seed; exit 1 if a seed
# that meta.json records as caught is no longer reported.
cd /verif || exit 2
git -C /repo status --short | grep -q . && { echo "/repo has uncommitted changes"; exit 2; }
rc=0
for d in seeded/S_*; do
  [ -f "$d/meta.json" ] || { echo "$d: no meta.json"; continue; }
  p=$(python3 -c "import json;print(json.load(open('$d/meta.json'))['property'])")
  out=$(lib/seedrun.sh "$d" "$p" 2>&1); r=$?
  if [ $r -eq 1 ]; then echo "$(basename $d) $p caught: $(echo "$out" | grep -c VIOLATION) violation line(s)";
  else echo "$(basename $d) $p NOT REPORTED (rc=$r)"; rc=1; fi
done
exit $rc

#!/usr/bin/env python3
"""check.py <property> [--tier quick|thorough] | --replay <file>

Decides one property: runs every unit the property depends on against /repo's current working
tree, combines the verdicts, writes /verif/evidence/<id>.json, prints
   VIOLATION property=<id> replay=<path>[ no-failing-input-found]     and exits 1, or
   KNOWN-FINDING: property=<id> <what fails>                          (exit code unaffected), or
exits 2 when a unit is inconclusive (lost anchor, unsupported construct, resource limit): never an
alarm.  See DESIGN.md 7.
"""
import json
import os
import sys
import time

sys.path.insert(0, os.path.dirname(os.path.abspath(__file__)))
import units  # noqa: E402
from units import PASS, VIOLATION, INCONCLUSIVE, VERIF  # noqa: E402
import props as P  # noqa: E402


def load_known():
    p = os.path.join(VERIF, 'known_findings.json')
    if not os.path.exists(p):
        return []
    return json.load(open(p)).get('findings', [])


def main():
    args = sys.argv[1:]
    if args and args[0] == '--replay':
        return replay(args[1])
    if not args:
        print(__doc__)
        return 2
    pid = args[0]
    tier = os.environ.get('VERIF_TIER', 'quick')
    if '--tier' in args:
        tier = args[args.index('--tier') + 1]
    if '--replay' in args:
        return replay(args[args.index('--replay') + 1])
    seed = int(os.environ.get('VERIF_SEED', '0') or 0)
    if pid not in P.PROPERTIES:
        print('property %s is not claimed (see MANIFEST.json not_applicable)' % pid)
        return 2
    cfg = P.PROPERTIES[pid]
    t0 = time.time()
    results = []
    for spec in cfg['units'](tier):
        r = P.run_unit(spec, tier)
        results.append((spec, r))
        print('[%s] unit %-28s %-12s %s obligations=%d discharged=%d %.1fs %s'
              % (pid, r.name, r.engine.split(' ')[0], r.status.upper(), r.obligations, r.discharged, r.wall_s,
                 ('-- ' + r.reason) if r.reason else ''), flush=True)

    known = [k for k in load_known() if k.get('property') == pid and k.get('status') == 'known']
    violations = []      # (unit result, failure dict)
    inconclusive = []
    known_hits = []
    for spec, r in results:
        if r.status == INCONCLUSIVE:
            inconclusive.append(r)
        elif r.status == VIOLATION:
            for f in r.failures:
                if not P.relevant(pid, spec, r, f):
                    continue
                fid = P.failure_id(r, f)
                f['id'] = fid
                hit = [k for k in known if k.get('match') and P.known_match(k['match'], r, f)]
                if hit:
                    known_hits.append((hit[0], r, f))
                else:
                    violations.append((spec, r, f))
    for k, r, f in known_hits:
        print('KNOWN-FINDING: property=%s %s' % (pid, k['what']))
    # a listed finding that no longer shows up is worth a note (not an error)
    seen = set(id(k) for k, _, _ in known_hits)
    for k in known:
        if id(k) not in seen and k.get('expect_reported', True):
            print('note: known finding not observed on this tree: %s' % k['what'])

    rc = 0
    replay_paths = []
    if violations:
        rc = 1
        os.makedirs(os.path.join(VERIF, 'replays'), exist_ok=True)
        # one VIOLATION line per unit and failed function: the most telling failure first
        groups = {}
        for spec, r, f in violations:
            per_fn = r.engine.startswith('verus')
            groups.setdefault((r.name, f.get('function') if per_fn else ''), []).append((spec, r, f))
        for key, lst in groups.items():
            lst.sort(key=lambda x: P.rank(pid, x[2]))
            spec, r, f = lst[0]
            path, found = P.make_replay(pid, spec, r, f, tier)
            replay_paths.append(path)
            print('VIOLATION property=%s replay=%s%s' % (pid, path, '' if found else ' no-failing-input-found'))
            print('   failed obligation: unit=%s function=%s: %s%s%s' % (
                r.name, f.get('function'), f.get('message'),
                (' (%s:%s)' % (f.get('repo_file'), f.get('repo_line'))) if f.get('repo_file') else '',
                (' [+%d more failures in this unit]' % (len(lst) - 1)) if len(lst) > 1 else ''))
    elif inconclusive:
        rc = 2
        for r in inconclusive:
            print('INCONCLUSIVE property=%s unit=%s: %s' % (pid, r.name, r.reason))

    write_evidence(pid, cfg, tier, seed, results, violations, known_hits, inconclusive, time.time() - t0)
    return rc


def write_evidence(pid, cfg, tier, seed, results, violations, known_hits, inconclusive, wall):
    proof_ob = proof_dis = 0
    bounded_ev = bounded_nt = 0
    functions = []
    assumptions = list(cfg.get('assumptions', []))
    trusted = list(cfg.get('trusted_base', []))
    samples = []
    unit_rows = []
    solver_s = 0.0
    bounds = []
    cmds = []
    harness_ev = harness_nt = 0
    programs = set()
    for spec, r in results:
        row = {'unit': r.name, 'engine': r.engine, 'status': r.status, 'obligations': r.obligations,
               'discharged': r.discharged, 'solver_s': round(r.solver_s, 2), 'wall_s': round(r.wall_s, 2),
               'bounded': r.bounded, 'cached': r.extra.get('cached', False)}
        if r.reason:
            row['reason'] = r.reason
        unit_rows.append(row)
        solver_s += r.solver_s
        cmds.append(r.cmd)
        for fn in r.functions[:400]:
            functions.append('%s %s:%s [%s] text-sha256=%s' % (r.name, fn['file'], fn['line'], fn['selector'], fn['sha256']))
        if r.bounded:
            bounded_ev += int(r.extra.get('evaluations', r.obligations) or 0)
            bounded_nt += int(r.extra.get('distinct_nontrivial', 0) or 0)
            bounds.append('%s: %s' % (r.name, r.bounded))
            for s in (r.extra.get('samples') or [])[:2]:
                samples.append({'unit': r.name, 'case': s})
        else:
            proof_ob += r.obligations
            proof_dis += r.discharged
            rows = r.extra.get('harnesses') or []
            if rows:
                rel = [x for x in rows if (('::' + pid.lower() + '_') in x['harness'] or x['harness'].split('::')[-1].startswith(pid.lower() + '_')
                                           or pid in cfg.get('all_harnesses_count_for', []))]
                if not rel:
                    rel = rows
                harness_ev += len(rel)
                harness_nt += len([x for x in rel if x['checks'] > 1 and x['verdict'] == 'ok'])
                mods = set(x['harness'].split('::h::')[0] for x in rel if '::h::' in x['harness'])
                programs.update(mods)
                for x in rel[:2]:
                    samples.append({'unit': r.name, 'obligation': x})
            for pf in (r.extra.get('harnesses') or [])[:3]:
                samples.append({'unit': r.name, 'obligation': pf})
        for a in r.assumptions:
            if a not in assumptions:
                assumptions.append(a)
        for s in r.extra.get('trusted_constructs_scan', []):
            trusted.append(s)
    if not samples:
        for spec, r in results:
            for pf in (r.extra.get('per_function') or [])[:3]:
                samples.append({'unit': r.name, 'obligation': pf})
    level = cfg['level']
    cov = {
        'obligations': proof_ob,
        'discharged': proof_dis,
        'checker_cmd': ' ; '.join(c for c in cmds if c)[:4000],
        'trusted_base': trusted[:200],
        'functions_under_contract': functions,
        'units': unit_rows,
        'solver_s': round(solver_s, 2),
        'bounded_standins': bounds,
        'unchecked_clauses': cfg.get('unchecked', []),
        'samples': samples[:8] or [{'note': 'no unit produced a sample'}],
        'explanation': cfg['explanation'],
        'known_findings_reported': [k['what'] for k, _, _ in known_hits],
        'inconclusive_units': [r.name + ': ' + r.reason for r in inconclusive],
    }
    if bounded_ev:
        cov['evaluations'] = bounded_ev
        cov['distinct_nontrivial'] = bounded_nt
        cov['rule'] = cfg.get('rule', 'bounded-exhaustive enumeration, see bounded_standins')
        cov['exhaustive'] = True
    if harness_ev and bounded_ev:
        cov['harness_evaluations'] = harness_ev
        cov['harness_nontrivial'] = harness_nt
        cov['rule'] += ('; evaluations / distinct_nontrivial count the cases of the bounded units only - the %d Kani harnesses of the non-bounded units '
                        '(one harness = one function contract checked for all symbolic field values) are counted under harness_evaluations' % harness_ev)
    if harness_ev and not bounded_ev:
        cov['evaluations'] = harness_ev
        cov['distinct_nontrivial'] = harness_nt
        cov['rule'] = 'one evaluation = one Kani harness (a function contract checked for all symbolic field values of one generated function or operation sequence); non-trivial = the harness generated more than one check and verified'
    if programs:
        cov['programs'] = len(programs)
        cov['corpus_modules'] = sorted(programs)
    ev = {
        'property_id': pid,
        'tier': tier,
        'seed': seed,
        'level': level,
        'coverage': cov,
        'assumptions': assumptions,
        'wall_s': round(wall, 2),
        'violations': len(violations),
    }
    os.makedirs(os.path.join(VERIF, 'evidence'), exist_ok=True)
    json.dump(ev, open(os.path.join(VERIF, 'evidence', pid + '.json'), 'w'), indent=1)


def replay(path):
    j = json.load(open(path))
    kind = j.get('kind')
    print('replay %s: property=%s kind=%s' % (path, j.get('property'), kind))
    if kind == 'bx-case':
        rc, out = units.bx_replay(path)
        print(out)
        return 1 if rc == 1 else (0 if rc == 0 else 2)
    if kind == 'kani-harness':
        return P.replay_kani(j)
    if kind == 'gk-compile':
        import kani_units
        os.environ['VERIF_NOCACHE'] = '1'
        spec = dict(P.GK, harnesses=['m_empty_then_uninit::h::c03'], min_harnesses=1)
        r = kani_units.run_kani(spec, 'quick')
        print('corpus modules regenerated from /repo and compiled: %s %s' % (r.status, r.reason))
        for f in r.failures:
            print('REPLAY: violated %s' % f['message'])
        return 1 if r.status == VIOLATION else (0 if r.status == PASS else 2)
    if kind == 'bx-vec':
        r = units.run_bx_vec('replay', 0, case=j['case'])
        print(r.reason)
        return 1 if r.status == VIOLATION else (0 if r.status == PASS else 2)
    if kind == 'gk-native':
        r = units.run_gk_native('replay', j['harness'])
        print('native harness %s on the current tree: %s %s' % (j['harness'], r.status, r.reason))
        for f in r.failures:
            print('REPLAY: violated %s' % f['message'])
        return 1 if r.status == VIOLATION else (0 if r.status == PASS else 2)
    if kind == 'bx-determinism':
        r = units.run_bx_determinism('replay', 6 if j.get('tier') == 'thorough' else 5)
        print('determinism stand-in on the current tree: %s %s' % (r.status, r.reason))
        for f in r.failures:
            print('REPLAY: violated %s' % f['message'])
        return 1 if r.status == VIOLATION else (0 if r.status == PASS else 2)
    if kind == 'bx-types':
        exe, err = units.build_bx('bx_types')
        if exe is None:
            print(err)
            return 2
        rc, out, err, wall, to = units._sh([exe, '--depth', '3'], 600)
        print('\n'.join(l for l in out.split('\n') if l.startswith('REPLAY')) or 'REPLAY: no clause violated on the current tree')
        return 1 if rc == 1 else (0 if rc == 0 else 2)
    if kind == 'bx-convert':
        exe, err = units.build_bx()
        if exe is None:
            print(err)
            return 2
        rc, out, err, wall, to = units._sh([exe, 'convert', '--replay', path], 600)
        print(out)
        return 1 if rc == 1 else (0 if rc == 0 else 2)
    if kind in ('bx-builder', 'bx-resolver'):
        exe, err = units.build_bx()
        if exe is None:
            print(err)
            return 2
        cmd = [exe, 'builder-history', '--replay', path] if kind == 'bx-builder' else [exe, 'resolver']
        rc, out, err, wall, to = units._sh(cmd, 600)
        print('\n'.join(l for l in out.split('\n') if l.startswith('REPLAY') or l.startswith('  ') or l.startswith('replaying')))
        return 1 if rc == 1 else (0 if rc == 0 else 2)
    print('no concrete input was found for this failed obligation (no-failing-input-found).')
    print('failed obligation: %s' % json.dumps(j.get('obligation'), indent=1))
    print('verifier output:\n%s' % j.get('verifier_output', '')[-6000:])
    print('re-running the unit on the current tree:')
    r = P.run_unit(j['unit_spec'], j.get('tier', 'quick'))
    print('unit %s -> %s %s' % (r.name, r.status, r.reason))
    return 1 if r.status == VIOLATION else (0 if r.status == PASS else 2)


if __name__ == '__main__':
    sys.exit(main())

#[cfg(kani)]
mod verif_kani {
    use super::*;
    use std::panic::catch_unwind as real_cu;

    fn catch_unwind_stub<F: FnOnce() -> R + std::panic::UnwindSafe, R>(f: F) -> std::thread::Result<R> { Ok(f()) }

    #[kani::proof]
    #[kani::unwind(4)]
    #[kani::stub(real_cu, catch_unwind_stub)]
    fn convert_u32_len2() {
        let a: u32 = kani::any();
        let b: u32 = kani::any();
        let keep0: bool = kani::any();
        let keep1: bool = kani::any();
        let v = vec![a, b];
        let cap = v.capacity();
        let ptr = v.as_ptr() as usize;
        let out = convert_vec_in_place::<u32, i32, _>(v, |t, _prev| {
            let keep = if t == a { keep0 } else { keep1 };
            if keep { VecElementConversionResult::Converted(t as i32) } else { VecElementConversionResult::Abandonned }
        });
        assert!(out.capacity() == cap);
        assert!(out.as_ptr() as usize == ptr);
        if a != b {
            let n = (keep0 as usize) + (keep1 as usize);
            assert!(out.len() == n);
            if keep0 { assert!(out[0] == a as i32); }
            if keep0 && keep1 { assert!(out[1] == b as i32); }
            if !keep0 && keep1 { assert!(out[0] == b as i32); }
        }
    }
}

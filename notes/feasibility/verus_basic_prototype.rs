use vstd::prelude::*;
verus! {

#[derive(Clone, Copy, PartialEq, Eq)]
pub struct DatumId(pub usize);

pub struct TypeInfo { pub name: String, pub size: usize, pub align: usize }
pub struct NativeDatumDetails { pub offset: usize, pub type_info: TypeInfo, pub allow_uninit: bool }
impl NativeDatumDetails {
    pub fn offset(&self) -> (r: usize) ensures r == self.offset { self.offset }
    pub fn size(&self) -> (r: usize) ensures r == self.type_info.size { self.type_info.size }
    pub fn type_align(&self) -> (r: usize) ensures r == self.type_info.align { self.type_info.align }
}
pub struct DatumDefinition<D> { pub id: DatumId, pub name: String, pub details: D }
impl<D> DatumDefinition<D> {
    pub fn details(&self) -> (r: &D) ensures *r == self.details { &self.details }
    pub fn details_mut(&mut self) -> (r: &mut D)
        ensures *r == old(self).details, final(self).id == old(self).id, final(self).name == old(self).name, final(self).details == *final(r)
    { &mut self.details }
}
pub struct DatumDefinitionCollection<D> { pub data: Vec<DatumDefinition<D>> }
impl<D> DatumDefinitionCollection<D> {
    pub fn get(&self, id: DatumId) -> (r: Option<&DatumDefinition<D>>)
        ensures r.is_some() == (id.0 < self.data@.len()),
                r.is_some() ==> *r.unwrap() == self.data@[id.0 as int]
    { self.data.get(id.0) }
    pub fn get_mut(&mut self, id: DatumId) -> (r: Option<&mut DatumDefinition<D>>)
        ensures
            r.is_some() == (id.0 < old(self).data@.len()),
            r.is_some() ==> *r.unwrap() == old(self).data@[id.0 as int]
               && final(self).data@ == old(self).data@.update(id.0 as int, *final(r.unwrap())),
    { self.data.get_mut(id.0) }
}


pub type Defs = Seq<DatumDefinition<NativeDatumDetails>>;
pub open spec fn off(defs: Defs, id: DatumId) -> int { defs[id.0 as int].details.offset as int }
pub open spec fn sz(defs: Defs, id: DatumId) -> int { defs[id.0 as int].details.type_info.size as int }
pub open spec fn alg(defs: Defs, id: DatumId) -> int { defs[id.0 as int].details.type_info.align as int }
pub open spec fn valid_ids(data: Seq<DatumId>, defs: Defs) -> bool { forall|i:int| 0<=i<data.len() ==> (#[trigger] data[i]).0 < defs.len() }
pub open spec fn distinct(data: Seq<DatumId>) -> bool { forall|i:int, j:int| 0<=i<j<data.len() ==> data[i] != data[j] }
pub open spec fn ordered(data: Seq<DatumId>, defs: Defs) -> bool {
    forall|i:int, j:int| 0<=i<j<data.len() ==> off(defs, data[i]) + sz(defs, data[i]) <= off(defs, data[j]) }
pub open spec fn aligned(data: Seq<DatumId>, defs: Defs) -> bool {
    forall|i:int| 0<=i<data.len() ==> alg(defs, #[trigger] data[i]) > 0 && off(defs, data[i]) % alg(defs, data[i]) == 0 }
pub open spec fn bounded(data: Seq<DatumId>, defs: Defs, b: int) -> bool {
    forall|i:int| 0<=i<data.len() ==> off(defs, #[trigger] data[i]) + sz(defs, data[i]) <= b }
pub open spec fn wf(data: Seq<DatumId>, defs: Defs) -> bool {
    valid_ids(data, defs) && distinct(data) && ordered(data, defs) && aligned(data, defs) }
pub open spec fn same_except(d0: Defs, d1: Defs, except: Seq<DatumId>) -> bool {
    d0.len() == d1.len() && forall|k:int| 0<=k<d0.len() ==> ( (forall|i:int| 0<=i<except.len() ==> except[i].0 != k) ==> d0[k] == d1[k])
    && forall|k:int| 0<=k<d0.len() ==> d0[k].details.type_info == d1[k].details.type_info
}
pub const B: usize = 0x4000_0000;
pub const S: usize = 0x4000;

pub open spec fn al(c: int, a: int) -> int { (c + a - 1) / a * a }

pub fn align_bytes(caret: usize, align: usize) -> (r: usize)
    requires align > 0, caret + align <= usize::MAX
    ensures r == al(caret as int, align as int)
{
    proof { lemma_al(caret as int, align as int); }
    (caret + align - 1) / align * align
}


pub open spec fn add_ok(add: Seq<DatumId>, data: Seq<DatumId>, defs: Defs) -> bool {
    valid_ids(add, defs) && distinct(add)
    && (forall|i:int, j:int| 0<=i<add.len() && 0<=j<data.len() ==> add[i] != data[j])
    && (forall|i:int| 0<=i<add.len() ==> alg(defs, #[trigger] add[i]) > 0 && sz(defs, add[i]) + alg(defs, add[i]) <= S)
    && add.len() <= 0x10000
}

proof fn lemma_al(c: int, a: int)
    requires a > 0, c >= 0
    ensures al(c, a) >= c, al(c, a) < c + a, al(c, a) % a == 0, (c % a == 0 ==> al(c, a) == c)
{
    let q = (c + a - 1) / a;
    assert(q * a <= c + a - 1 && c + a - 1 < q * a + a) by(nonlinear_arith) requires q == (c + a - 1) / a, a > 0, c + a - 1 >= 0;
    assert((q * a) % a == 0) by(nonlinear_arith) requires a > 0;
    if c % a == 0 {
        let k = c / a;
        assert(c == k * a) by(nonlinear_arith) requires k == c / a, c % a == 0, a > 0;
        assert(q == k) by(nonlinear_arith) requires q * a <= k * a + a - 1, k * a + a - 1 < q * a + a, a > 0;
    }
}

pub fn basic(
    mut data: Vec<DatumId>,
    data_to_add: Vec<DatumId>,
    data_to_remove: Vec<DatumId>,
    datum_definitions: &mut DatumDefinitionCollection<NativeDatumDetails>,
) -> (r: Vec<DatumId>)
    requires
        wf(data@, old(datum_definitions).data@),
        bounded(data@, old(datum_definitions).data@, B as int),
        add_ok(data_to_add@, data@, old(datum_definitions).data@),
    ensures
        wf(r@, final(datum_definitions).data@),
        same_except(old(datum_definitions).data@, final(datum_definitions).data@, data_to_add@),
        r@.len() == data@.len() + data_to_add@.len(),
        forall|id: DatumId| r@.contains(id) <==> data@.contains(id) || data_to_add@.contains(id),
{
    // Then add
    let ghost data0 = data@;
    let ghost defs0 = datum_definitions.data@;
    let mut data_caret = 0;
    let mut byte_caret = 0;
    for datum_id__r in it: &data_to_add
        invariant
            add_ok(data_to_add@, data0, defs0),
            wf(data@, datum_definitions.data@),
            same_except(defs0, datum_definitions.data@, data_to_add@.take(it.index@)),
            data@.len() == data0.len() + it.index@,
            forall|id: DatumId| data@.contains(id) <==> data0.contains(id) || data_to_add@.take(it.index@).contains(id),
            data_caret <= data@.len(),
            forall|k:int| 0 <= k < data_caret ==> off(datum_definitions.data@, data@[k]) + sz(datum_definitions.data@, data@[k]) <= byte_caret,
            forall|k:int| data_caret <= k < data@.len() ==> off(datum_definitions.data@, data@[k]) >= byte_caret,
            bounded(data@, datum_definitions.data@, B + it.index@ * S),
            byte_caret <= B + it.index@ * S,
    {
        let datum_id = *datum_id__r;
        let ghost pos = it.index@;
        assert(datum_id == data_to_add@[pos]);
        assert(!data@.contains(datum_id)) by {
            if data0.contains(datum_id) { }
            if data_to_add@.take(pos).contains(datum_id) { }
        }
        assert(datum_definitions.data@[datum_id.0 as int].details.type_info == defs0[datum_id.0 as int].details.type_info);
        let datum = datum_definitions
            .get(datum_id)
            .unwrap_or_else(|| -> (r: &DatumDefinition<NativeDatumDetails>) requires false { panic!("datum #{}", datum_id.0) });
        let ghost a = datum.details.type_info.align as int;
        let ghost s = datum.details.type_info.size as int;
        while data_caret < data.len()
            invariant
                a == datum.details.type_info.align, s == datum.details.type_info.size, a > 0, s + a <= S,
                wf(data@, datum_definitions.data@),
                data_caret <= data@.len(),
                forall|k:int| 0 <= k < data_caret ==> off(datum_definitions.data@, data@[k]) + sz(datum_definitions.data@, data@[k]) <= byte_caret,
                forall|k:int| data_caret <= k < data@.len() ==> off(datum_definitions.data@, data@[k]) >= byte_caret,
                bounded(data@, datum_definitions.data@, B + pos * S),
                byte_caret <= B + pos * S,
                0 <= pos < 0x10000,
            ensures
                data_caret <= data@.len(),
                byte_caret <= B + pos * S,
                forall|k:int| 0 <= k < data_caret ==> off(datum_definitions.data@, data@[k]) + sz(datum_definitions.data@, data@[k]) <= byte_caret,
                forall|k:int| data_caret <= k < data@.len() ==> off(datum_definitions.data@, data@[k]) >= al(byte_caret as int, a) + s,
            decreases data@.len() - data_caret
        {
            let caret_datum_id = data[data_caret];
            let caret_datum = datum_definitions
                .get(caret_datum_id)
                .unwrap_or_else(|| -> (r: &DatumDefinition<NativeDatumDetails>) requires false { panic!("datum #{}", caret_datum_id.0) });
            if caret_datum.details().offset() == byte_caret {
                data_caret += 1;
                byte_caret += caret_datum.details().size();
            } else {
                proof { lemma_al(byte_caret as int, a); }
                let bc = align_bytes(byte_caret, datum.details().type_align());
                if bc + datum.details().size() <= caret_datum.details().offset() {
                    byte_caret = bc;
                    proof { lemma_al(bc as int, a); }
                    break;
                } else {
                    data_caret += 1;
                    byte_caret = caret_datum.details().offset() + caret_datum.details().size();
                }
            }
        }
        proof { lemma_al(byte_caret as int, a); }
        byte_caret = align_bytes(byte_caret, datum.details().type_align());
        let ghost data_before = data@;
        data.insert(data_caret, datum_id);
        let ghost defs_before = datum_definitions.data@;
        let datum_mut = datum_definitions
            .get_mut(datum_id)
            .unwrap_or_else(|| -> (r: &mut DatumDefinition<NativeDatumDetails>) requires false { panic!("datum #{}", datum_id.0) });
        datum_mut.details_mut().offset = byte_caret;
        proof {
            let defs1 = datum_definitions.data@;
            assert(forall|k:int| 0 <= k < defs1.len() && k != datum_id.0 ==> defs1[k] == defs_before[k]);
            assert(forall|k:int| 0 <= k < data_before.len() ==> data_before[k] != datum_id);
            assert(data_to_add@.take(pos + 1) =~= data_to_add@.take(pos).push(datum_id));
            assert(pos * S + S == (pos + 1) * S) by(nonlinear_arith);
        }
    }

    data
}

} // verus!
fn main() {}

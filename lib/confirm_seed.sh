#!/bin/sh
# lib/confirm_seed.sh <seed name under /verif/seeded> : independent confirmation in a scratch
# worktree (removed afterwards): patch applies, existing suite green with it, demo fails with it
# and passes without it.
s=$1; d=/verif/seeded/$s; wt=/tmp/wt_confirm_$$
git -C /repo worktree add -q $wt HEAD || exit 2
cd $wt || exit 2
if [ -d $d/demo ]; then
  rm -rf /tmp/demo_confirm_$$; cp -r $d/demo /tmp/demo_confirm_$$
  sed -i "s|/tmp/wt_[a-z][0-9]*|$wt|g" /tmp/demo_confirm_$$/Cargo.toml; rm -f /tmp/demo_confirm_$$/Cargo.lock; cp /repo/Cargo.lock /tmp/demo_confirm_$$/
  run_demo() { (cd /tmp/demo_confirm_$$ && cargo clean >/dev/null 2>&1; cargo run --offline >/tmp/demo_out_$$.txt 2>&1; echo "demo exit=$?"; grep -E 'panicked|assert|good|OK|values' /tmp/demo_out_$$.txt | head -3); }
else
  demo=$(ls $d/demo_*.rs | head -1); t=$(basename $demo .rs)
  crate=truc; grep -q truc_runtime $d/patch.diff && crate=truc_runtime
  mkdir -p $crate/tests; cp $demo $crate/tests/
  run_demo() { cargo test -p $crate --offline --test $t 2>&1 | grep -E '^test result' | head -2; }
fi
echo "--- without patch:"; run_demo
git apply $d/patch.diff || { echo "PATCH DOES NOT APPLY"; }
echo "--- with patch:"; run_demo
[ -d $d/demo ] || rm -f $crate/tests/$(basename $demo)
echo "--- existing suite with patch:"; cargo test --workspace --offline 2>&1 | grep -E 'test result: (ok|FAILED)\. [1-9]' | head -4
cd /; git -C /repo worktree remove --force $wt; git -C /repo worktree prune; rm -rf /tmp/demo_confirm_$$ /tmp/demo_out_$$.txt

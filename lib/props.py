"""Property table: which units decide which property, how a unit failure maps to a property, and
how a replay is produced."""
import json
import os
import time

import units
from units import PASS, VIOLATION, INCONCLUSIVE, VERIF, BUILD

_cache = {}

SHAPES_Q = '0:1,1:1,2:2,3:1,4:4,8:8,12:4,0:4'
SHAPES_T = '0:1,1:1,2:2,3:1,4:4,8:8,12:4,0:4,16:16,24:8,2:1,0:8'

BX_BOUNDS = {
    'quick': {'max_data': 3, 'max_add': 2, 'window': 16, 'shapes': SHAPES_Q, 'timeout': 900},
    'thorough': {'max_data': 3, 'max_add': 3, 'window': 16, 'shapes': SHAPES_T, 'timeout': 6 * 3600},
}
BX_CEX_BOUNDS = {'max_data': 3, 'max_add': 2, 'window': 12, 'shapes': '0:1,1:1,2:2,3:1,4:4,8:8', 'timeout': 900}


def run_unit(spec, tier):
    key = json.dumps(spec, sort_keys=True) + tier
    if key in _cache:
        return _cache[key]
    kind = spec['kind']
    if kind == 'verus':
        r = units.run_verus(spec['unit'])
    elif kind == 'bx':
        r = units.run_bx(spec['name'], spec['strategy'], spec.get('bounds') or BX_BOUNDS[tier], tier)
    elif kind == 'kani':
        import kani_units
        r = kani_units.run_kani(spec, tier)
    elif kind == 'gk':
        import kani_units
        r = kani_units.run_gk(spec, tier)
    else:
        raise SystemExit('unknown unit kind %s' % kind)
    _cache[key] = r
    return r


# ------------------------------------------------------------------------------------------------
_BX_CLAUSES = {
    'C01': ('C01', 'wf.ordered', 'wf.distinct', 'wf.valid_ids', 'panic'),
    'C02': ('C02', 'wf.aligned', 'wf.ordered', 'panic'),
    'C03': ('frame',),
    'C12': ('members', 'wf.distinct'),
    'C13': ('panic', 'wf.ordered'),
}


def relevant(pid, spec, r, f):
    """is failure f of unit r a failure of property pid?"""
    if r.engine.startswith('bx'):
        want = _BX_CLAUSES.get(pid, ())
        return any(any(w in c for w in want) for c in f.get('clauses', [])) or \
            any(any(w in c for w in want) for c in f.get('confirmed', []))
    tags = [t for t in f.get('tags', []) if t.startswith('C')]
    if tags:
        return pid in tags
    fp = f.get('function_props') or []
    if fp:
        return pid in fp
    only = spec.get('props')
    return (only is None) or (pid in only)


def rank(pid, f):
    """smaller = reported first: failures that name the property's own clause and were confirmed
    through ordinary requests, then smaller inputs"""
    cl = ' '.join(f.get('confirmed') or []) + ' '.join(f.get('clauses') or [])
    own = 0 if (pid in cl or 'panic' in cl) else 1
    size = len(json.dumps(f.get('case', {})))
    return (own, size)


def failure_id(r, f):
    if f.get('harness'):
        return 'kani:%s' % f['harness']
    if r.engine.startswith('bx'):
        c = f.get('case', {})
        return 'bx:%s:%s' % (c.get('strategy'), json.dumps(c, sort_keys=True))
    return 'verus:%s:%s:%s' % (r.name, f.get('function'), f.get('message'))


def known_match(m, r, f):
    if 'id' in m:
        return f.get('id') == m['id']
    if 'harness' in m:
        return f.get('harness') == m['harness'] and (m.get('check') is None or m['check'] in (f.get('message') or ''))
    if 'callsite' in m:
        return f.get('callsite') == m['callsite']
    return False


def make_replay(pid, spec, r, f, tier):
    """returns (path, concrete_input_found)"""
    d = os.path.join(VERIF, 'replays')
    os.makedirs(d, exist_ok=True)
    stamp = time.strftime('%Y%m%d-%H%M%S')
    base = os.path.join(d, '%s-%s-%s-%d' % (pid, r.name, stamp, len(os.listdir(d))))
    if r.engine.startswith('bx'):
        path = base + '.json'
        json.dump({'kind': 'bx-case', 'property': pid, 'case': f['case'], 'clauses': f['clauses'],
                   'confirmed_through_public_api': f.get('confirmed'), 'unit': r.name,
                   'how': './check --replay <this file>  (rebuilds bx against /repo and replays the case through ordinary builder requests)'},
                  open(path, 'w'), indent=1)
        return path, True
    if r.engine.startswith('kani'):
        import kani_units
        return kani_units.make_replay(pid, spec, r, f, base)
    # Verus: look for a concrete input with bx when the failed obligation is a layout function
    if spec.get('cex') == 'bx-layout':
        cr = run_unit({'kind': 'bx', 'name': 'cex-layout', 'strategy': 'all', 'bounds': BX_CEX_BOUNDS}, 'quick')
        if cr.status == VIOLATION:
            for cf in cr.failures:
                if relevant(pid, spec, cr, cf):
                    path = base + '.json'
                    json.dump({'kind': 'bx-case', 'property': pid, 'case': cf['case'], 'clauses': cf['clauses'],
                               'confirmed_through_public_api': cf.get('confirmed'),
                               'obligation': _ob(r, f), 'verifier_output': r.raw[-8000:], 'unit': r.name},
                              open(path, 'w'), indent=1)
                    return path, True
    path = base + '.json'
    json.dump({'kind': 'obligation', 'property': pid, 'obligation': _ob(r, f), 'verifier_output': r.raw[-12000:],
               'unit_spec': spec, 'tier': tier, 'note': 'no-failing-input-found'}, open(path, 'w'), indent=1)
    return path, False


def _ob(r, f):
    return {k: f.get(k) for k in ('function', 'message', 'repo_file', 'repo_line', 'out_line', 'text', 'tags', 'harness')} | {'unit': r.name}


def replay_kani(j):
    import kani_units
    return kani_units.replay(j)


# ------------------------------------------------------------------------------------------------
V_LAYOUT = {'kind': 'verus', 'unit': 'layout', 'cex': 'bx-layout'}
BX_SIMPLE = {'kind': 'bx', 'name': 'simple', 'strategy': 'simple'}

LAYOUT_ASSUME = [
    'simple() and compute_initial_gaps() are outside both verifiers (BTreeMap entry API, stateful filter_map closure, '
    'moved-closure fold): covered only by the bounded-exhaustive stand-in bx, never counted as proved',
]

PROPERTIES = {
    'C01': {
        'level': 'model_checking',
        'units': lambda tier: [V_LAYOUT, BX_SIMPLE],
        'explanation': 'Verus proves, on text extracted from /repo on this run, that align_bytes, end, push_datum, append_data, '
                       'append_data_reverse and basic map every WF variant list to a WF list (address order incl. zero-size data => '
                       'pairwise disjoint byte ranges, lemma_wf_implies_disjoint). simple() is executed natively on every pre-state '
                       'inside the stated bound against the same contract (bounded, not proved).',
        'rule': 'bx: every WF pre-state within the window x every removal subset x every sequence of additions; non-trivial = a '
                'datum survives and an added datum was placed below the previous end',
        'assumptions': LAYOUT_ASSUME,
        'unchecked': ['history induction is the standard invariant argument (close passes previous list minus removals to the strategy); '
                      'its builder half is unit `builder` (C12)'],
    },
}
PROPERTIES['C02'] = dict(PROPERTIES['C01'])
PROPERTIES['C03'] = dict(PROPERTIES['C01'])

"""Engine K / G: Kani on harness crates that depend on /repo's crates by path."""
import hashlib
import json
import os
import re
import shutil
import subprocess
import time

import units
from units import PASS, VIOLATION, INCONCLUSIVE, VERIF, BUILD, REPO, UnitResult, _sh

KANI_ASSUME = [
    'Kani 0.68 / CBMC 6.11 semantics of MIR (no aliasing model, no unwinding: a panic ends the path)',
    'every loop is unwound with unwinding assertions on: a passed harness is complete within its stated input bound',
]


def _hash_inputs(paths, extra):
    h = hashlib.sha256()
    for p in sorted(paths):
        if os.path.isdir(p):
            for root, dirs, files in os.walk(p):
                dirs[:] = sorted(d for d in dirs if d not in ('target', '.git'))
                for f in sorted(files):
                    fp = os.path.join(root, f)
                    h.update(fp.encode())
                    h.update(open(fp, 'rb').read())
        elif os.path.exists(p):
            h.update(p.encode())
            h.update(open(p, 'rb').read())
    h.update(json.dumps(extra, sort_keys=True).encode())
    return h.hexdigest()[:24]


def parse_kani(out):
    """returns {harness: {status, checks, failed, failed_checks:[(desc, file, line)], covers_sat, covers_total, time}}"""
    res = {}
    cur = {}          # thread -> harness
    block_for = None
    single = None
    last_fc = None
    for line in out.split('\n'):
        m = re.match(r'^(?:Thread (\d+): )?Checking harness (\S+?)\.\.\.\s*$', line)
        if m:
            t = m.group(1) or 'main'
            cur[t] = m.group(2)
            res.setdefault(m.group(2), {'status': 'unknown', 'checks': 0, 'failed': 0, 'failed_checks': [],
                                        'covers_sat': 0, 'covers_total': 0, 'time': 0.0, 'stubs': []})
            if m.group(1) is None:
                block_for = m.group(2)
            continue
        m = re.match(r'^Thread (\d+):\s+- Stub: (.*)$', line)
        if m and m.group(1) in cur:
            res[cur[m.group(1)]]['stubs'].append(m.group(2).strip())
            continue
        m = re.match(r'^\s+- Stub: (.*)$', line)
        if m and block_for:
            res[block_for]['stubs'].append(m.group(1).strip())
            continue
        m = re.match(r'^Thread (\d+):\s*$', line)
        if m:
            block_for = cur.get(m.group(1))
            continue
        if block_for is None:
            continue
        r = res[block_for]
        m = re.match(r'^\s*\*\* (\d+) of (\d+) failed', line)
        if m:
            r['failed'], r['checks'] = int(m.group(1)), int(m.group(2))
            continue
        m = re.match(r'^\s*\*\* (\d+) of (\d+) cover properties satisfied', line)
        if m:
            r['covers_sat'], r['covers_total'] = int(m.group(1)), int(m.group(2))
            continue
        m = re.match(r'^Failed Checks: (.*)$', line)
        if m:
            last_fc = [m.group(1).strip(), '', 0]
            r['failed_checks'].append(last_fc)
            continue
        m = re.match(r'^\s*File: "(.*?)", line (\d+)', line)
        if m and last_fc is not None:
            last_fc[1], last_fc[2] = m.group(1), int(m.group(2))
            continue
        m = re.match(r'^VERIFICATION:- (\w+)', line)
        if m:
            r['status'] = m.group(1)
            continue
        m = re.match(r'^Verification Time: ([\d.]+)s', line)
        if m:
            r['time'] = float(m.group(1))
            continue
    return res


def kani_run(crate_dir, target_dir, harness_filters, flags, timeout, jobs=14, env=None):
    if not crate_dir.startswith(REPO):
        shutil.copyfile(os.path.join(REPO, 'Cargo.lock'), os.path.join(crate_dir, 'Cargo.lock'))
    cmd = ['cargo', 'kani', '-Z', 'stubbing', '-Z', 'unstable-options', '-j', str(jobs), '--output-format', 'terse']
    for h in harness_filters:
        cmd += ['--harness', h]
    cmd += flags
    e = {'CARGO_TARGET_DIR': target_dir}
    if env:
        e.update(env)
    rc, out, err, wall, to = _sh(cmd, timeout, cwd=crate_dir, env=e)
    return cmd, rc, out, err, wall, to


def run_kani(spec, tier):
    """spec: {kind:'kani', name, crate (dir under /verif/kani), repo_crates:[..], harnesses:[filters],
              expect: {harness-regex: expectation}, flags:[], bounded: str|None}"""
    name = spec['name']
    r = UnitResult(name, 'kani (CBMC)')
    t0 = time.time()
    crate_dir = crate_dir_of(spec['crate'])
    target_dir = os.path.join(BUILD, 'kani-' + spec['crate'])
    os.makedirs(target_dir, exist_ok=True)
    flags = list(spec.get('flags', []))
    env = dict(spec.get('env', {}))
    if spec.get('tier_env'):
        env[spec['tier_env']] = tier
    inputs = [os.path.join(crate_dir, 'src'), os.path.join(crate_dir, 'Cargo.toml'), os.path.join(crate_dir, 'build.rs'),
              os.path.join(VERIF, 'kani', 'incrate') if spec['crate'] == 'incrate' else os.path.join(crate_dir, 'Cargo.toml'),
              os.path.join(REPO, 'Cargo.lock')] + [os.path.join(REPO, c) for c in spec.get('repo_crates', [])] + list(spec.get('extra_inputs', []))
    key = _hash_inputs(inputs, {'h': spec['harnesses'], 'f': flags, 'v': 'kani-0.68.0', 'e': env})
    cache_file = os.path.join(BUILD, 'kani-cache', '%s-%s.json' % (name, key))
    r.cmd = 'cd %s && cargo kani -Z stubbing -Z unstable-options -j 14 --output-format terse %s %s' % (
        crate_dir, ' '.join('--harness ' + h for h in spec['harnesses']), ' '.join(flags))
    parsed = None
    if os.path.exists(cache_file) and not os.environ.get('VERIF_NOCACHE'):
        c = json.load(open(cache_file))
        parsed = c['parsed']
        r.extra['cached'] = True
        r.extra['cached_wall_s'] = c['wall_s']
        out = c.get('tail', '')
    else:
        cmd, rc, out, err, wall, to = kani_run(crate_dir, target_dir, spec['harnesses'], flags, spec.get('timeout', 3000), env=env)
        if to:
            r.status, r.reason = INCONCLUSIVE, 'cargo kani timed out after %ds' % spec.get('timeout', 3000)
            r.wall_s = time.time() - t0
            return r
        parsed = parse_kani(out)
        if not parsed and spec['crate'] == 'gk':
            # does a module that /repo's generator emitted for a corpus definition fail to compile?  (C13, second sentence)
            txt = out + err
            locs = re.findall(r'^error(?:\[E\d+\])?: ([^\n]*)\n\s+--> [^\n]*?/out/(\w+)\.rs:(\d+)', txt, re.M)
            gen = [(m, mod, ln) for m, mod, ln in locs if mod != 'corpus']
            if gen:
                m, mod, ln = gen[0]
                table = ''
                try:
                    table = next((l for l in open(os.path.join(BUILD, 'gk-gen', 'corpus_table.txt')).read().split('\n') if l.startswith(mod + ':')), '')
                except Exception:
                    pass
                r.status = VIOLATION
                r.reason = 'the module generated for corpus definition %s does not compile' % mod
                r.obligations, r.discharged = 1, 0
                r.failures.append({'function': 'truc::generator::generate', 'message': 'C13: the module generated for corpus definition %s does not compile: %s (%s.rs:%s)' % (mod, m, mod, ln),
                                   'props': ['C13'], 'tags': ['C13'], 'gk_compile': {'module': mod, 'definition': table, 'errors': ['%s (%s.rs:%s)' % g for g in gen[:8]]},
                                   'clauses': ['C13: generated module %s does not compile: %s' % (mod, m)]})
                r.wall_s = time.time() - t0
                r.raw = txt[-8000:]
                return r
        interface_failures = []
        if not parsed and spec['crate'] == 'gk':
            # the harness text (derived from the definition and the documented generated interface) no longer
            # compiles against the emitted module because an item of that interface is missing or has other fields:
            # the emitted module does not offer what the definition promises (e.g. a removed field is not handed back).
            # Those harnesses are reported and left out (GK_SKIP); the others still run.
            skipped = []
            for attempt in range(3):
                txt = out + err
                locs = re.findall(r'^error\[(E0609|E0560|E0063|E0026|E0027|E0599|E0412|E0422|E0425|E0433|E0061|E0308)\]: ([^\n]*)\n\s+--> [^\n]*?/out/corpus\.rs:(\d+)', txt, re.M)
                if not locs:
                    break
                try:
                    corpus = open(os.path.join(BUILD, 'gk-gen', 'corpus_harnesses.rs')).read().split('\n')
                except Exception:
                    corpus = []
                fails = {}
                for code, m, ln in locs:
                    ln = int(ln)
                    hname, mod = None, None
                    for i in range(min(ln, len(corpus)) - 1, -1, -1):
                        mm = re.match(r'\s*pub fn (c\d\d_\w+)\(\)', corpus[i])
                        if mm and hname is None:
                            hname = mm.group(1)
                        mm = re.match(r'pub mod (\w+) \{', corpus[i])
                        if mm:
                            mod = mm.group(1)
                            break
                    if hname and mod:
                        fails.setdefault('%s::h::%s' % (mod, hname), []).append('%s: %s (corpus.rs:%d)' % (code, m, ln))
                new_skips = [h for h in fails if h not in skipped]
                if not new_skips:
                    break
                for h in new_skips:
                    props = failure_props(h, [])
                    msg = '%s: the emitted module lacks part of the generated interface for this definition: %s' % (' '.join(props), fails[h][0])
                    interface_failures.append({'function': h, 'message': msg, 'props': props, 'tags': props,
                                               'gk_compile': {'module': h.split('::')[0], 'harness': h, 'errors': fails[h][:6]}, 'clauses': [msg]})
                skipped += new_skips
                env2 = dict(env, GK_SKIP=','.join(skipped))
                cmd, rc, out, err, wall, to = kani_run(crate_dir, target_dir, spec['harnesses'], flags, spec.get('timeout', 3000), env=env2)
                parsed = parse_kani(out)
                if parsed:
                    break
            if interface_failures and not parsed:
                r.status = VIOLATION
                r.reason = 'the emitted modules no longer offer the interface the harnesses (derived from the definitions) rely on'
                r.obligations, r.discharged = len(interface_failures), 0
                r.failures = interface_failures
                r.wall_s = time.time() - t0
                r.raw = (out + err)[-8000:]
                return r
        if not parsed:
            r.status = INCONCLUSIVE
            r.reason = 'cargo kani produced no harness result (rc=%s): %s' % (rc, (err or out)[-1500:])
            r.wall_s = time.time() - t0
            r.raw = (out + err)[-8000:]
            return r
        if not interface_failures:
            os.makedirs(os.path.dirname(cache_file), exist_ok=True)
            json.dump({'parsed': parsed, 'wall_s': wall, 'tail': out[-4000:]}, open(cache_file, 'w'))
        else:
            r.extra['interface_failures'] = interface_failures
            r.extra['gk_skip'] = ','.join(skipped)
    r.raw = out[-8000:]
    expect = spec.get('expect', {})
    harness_rows = []
    for h, res in sorted(parsed.items()):
        exp = {}
        for pat, e in expect.items():
            if re.search(pat, h):
                exp = e
        row = {'harness': h, 'status': res['status'], 'checks': res['checks'], 'failed': res['failed'],
               'covers': '%d/%d' % (res['covers_sat'], res['covers_total']), 'seconds': res['time'], 'stubs': res['stubs']}
        r.solver_s += res['time']
        ok, why, probe = judge(h, res, exp)
        row['verdict'] = 'ok' if ok else why
        harness_rows.append(row)
        if probe is not None:
            r.extra.setdefault('probes', {})[h] = probe
            continue
        if res['status'] not in ('SUCCESSFUL', 'FAILED'):
            r.status = INCONCLUSIVE
            r.reason = 'harness %s: status %s' % (h, res['status'])
            continue
        r.obligations += max(res['checks'], 1)
        if ok:
            r.discharged += max(res['checks'], 1)
        else:
            unwinding = any('unwinding assertion' in fc[0] for fc in res['failed_checks'])
            if why.startswith('VACUOUS'):
                if r.status == PASS:
                    r.status = INCONCLUSIVE
                    r.reason = 'harness %s: %s' % (h, why)
                continue
            if unwinding:
                if r.status == PASS:
                    r.status = INCONCLUSIVE
                    r.reason = 'harness %s: unwinding bound too small (not a verdict)' % h
                continue
            r.discharged += max(res['checks'] - max(res['failed'], 1), 0)
            r.failures.append({'function': h, 'harness': h, 'message': why, 'props': failure_props(h, res['failed_checks']),
                               'failed_checks': res['failed_checks'][:6], 'tags': [], 'crate': spec['crate'],
                               'flags': flags, 'env': ({'GK_SKIP': r.extra['gk_skip']} if r.extra.get('gk_skip') else {}),
                               'repo_file': next((fc[1] for fc in res['failed_checks'] if fc[1].startswith(REPO)), None),
                               'repo_line': next((fc[2] for fc in res['failed_checks'] if fc[1].startswith(REPO)), None)})
    for f in r.extra.pop('interface_failures', []):
        r.failures.append(f)
        r.obligations += 1
    if r.failures:
        r.status = VIOLATION
        r.reason = '%d harness(es) failed' % len(r.failures)
    if not harness_rows:
        r.status, r.reason = INCONCLUSIVE, 'no harness matched %s' % spec['harnesses']
    minh = spec.get('min_harnesses', 1)
    if len(harness_rows) < minh and r.status == PASS:
        r.status, r.reason = INCONCLUSIVE, 'vacuity guard: %d harnesses ran, expected >= %d' % (len(harness_rows), minh)
    r.extra['harnesses'] = harness_rows
    r.functions = []
    for f in spec.get('functions', []):
        rel = f.split(' ')[0]
        fp = os.path.join(REPO, rel)
        sha = hashlib.sha256(open(fp, 'rb').read()).hexdigest()[:16] if os.path.isfile(fp) else key
        r.functions.append({'kind': 'fn', 'selector': f, 'file': rel, 'line': 0, 'sha256': sha + ' (whole file)'})
    r.assumptions = list(KANI_ASSUME) + list(spec.get('assumptions', []))
    r.bounded = spec.get('bounded')
    if r.bounded:
        r.extra['evaluations'] = len(harness_rows)
        r.extra['distinct_nontrivial'] = len([x for x in harness_rows if x['checks'] > 1])
        r.extra['samples'] = harness_rows[:2]
    r.wall_s = time.time() - t0
    return r


def crate_dir_of(crate):
    if crate == 'gk':
        return os.path.join(VERIF, 'gk')
    if crate == 'incrate':
        # harnesses included into the truc crate itself by the cfg(kani) hooks
        return os.path.join(REPO, 'truc')
    return os.path.join(VERIF, 'kani', crate)


_BUILTIN = [
    ('never freed', ['C06']),
    ('double free', ['C06', 'C07']),
    ('free argument', ['C06', 'C07']),
    ('dereference failure', ['C07']),
    ('misaligned', ['C07']),
    ('pointer', ['C07']),
    ('dead object', ['C07']),
]


def failure_props(h, failed_checks):
    """which properties a failed harness speaks for: tags in the assertion text (`C05 ...`), CBMC's
    built-in memory checks (-> C06 / C07), and the harness name prefix"""
    props = set()
    for fc in failed_checks:
        for m in re.finditer(r'\bC(\d\d)\b', fc[0]):
            props.add('C' + m.group(1))
        for sub, ps in _BUILTIN:
            if sub in fc[0]:
                props.update(ps)
    for m in re.finditer(r'(?:^|::|_)(c\d\d)_', h):
        props.add(m.group(1).upper())
    if re.search(r'(?:^|::)l4_', h):
        props.update(['C01', 'C02', 'C03', 'C12'])
    if re.search(r'(?:^|::)l7_', h):
        props.update(['C01', 'C02'])
    return sorted(props)


def judge(h, res, exp):
    """returns (ok, reason, probe_value).  Expectations:
       {}                                    : must verify, every cover satisfied
       {'covers': 'any'}                     : must verify, covers not required
       {'must_fail_only': [substr, ...], 'covers_sat': 0} : must FAIL, every failed check matches one of the
                                               substrings, and no cover is satisfiable (C10)
       {'must_fail_with': substr}            : control harness: must fail with that check
       {'probe': True}                       : verdict is data (True = verified), never pass/fail
    """
    fcs = res['failed_checks']
    if exp.get('probe'):
        return True, '', (res['status'] == 'SUCCESSFUL', [fc[0] for fc in fcs])
    if 'must_fail_only' in exp:
        if res['status'] != 'FAILED' or not fcs:
            return False, 'expected the refusal assertion to fail, but the harness verified: the conversion was not refused', None
        bad = [fc for fc in fcs if not any(s in fc[0] for s in exp['must_fail_only'])]
        if bad:
            return False, 'fails with a check other than the refusal: %s' % bad[0][0], None
        if res['covers_sat'] != exp.get('covers_sat', 0):
            return False, 'a cover that must be unreachable before the refusal is reachable (%d/%d)' % (res['covers_sat'], res['covers_total']), None
        return True, '', None
    if 'must_fail_with' in exp:
        if res['status'] == 'FAILED' and any(exp['must_fail_with'] in fc[0] for fc in fcs):
            return True, '', None
        return False, 'control harness did not fail with `%s`' % exp['must_fail_with'], None
    if res['status'] != 'SUCCESSFUL':
        return False, '; '.join('%s (%s:%s)' % (fc[0], os.path.basename(fc[1]), fc[2]) for fc in fcs[:3]) or res['status'], None
    if exp.get('covers') != 'any' and res['covers_total'] and res['covers_sat'] != res['covers_total']:
        return False, 'VACUOUS: only %d of %d covers satisfiable' % (res['covers_sat'], res['covers_total']), None
    return True, '', None


def tier_of(spec):
    return spec.get('_tier', 'quick')


def make_replay(pid, spec, r, f, base):
    """Re-run the failed harness alone with concrete playback: Kani prints its counterexample as a
    Rust unit test; `./check --replay` executes that test natively against the real code."""
    path = base + '.json'
    crate = f.get('crate') or spec.get('crate')
    crate_dir = crate_dir_of(crate)
    target_dir = os.path.join(BUILD, 'kani-' + crate)
    cmd = ['cargo', 'kani', '-Z', 'stubbing', '-Z', 'unstable-options', '-Z', 'concrete-playback', '--concrete-playback=print',
           '--harness', f['harness'], '--output-format', 'terse'] + [x for x in f.get('flags', [])]
    playback = ''
    out = ''
    if not f.get('no_playback'):
        rc, out, err, wall, to = _sh(cmd, 1500, cwd=crate_dir, env=dict(dict(spec.get('env', {}), **f.get('env', {})), CARGO_TARGET_DIR=target_dir, GK_TIER=tier_of(spec)))
        blocks = re.findall(r'```\n(.*?)```', out, re.S)
        blocks = [b for b in blocks if 'Check for `cover`' not in b]
        if blocks:
            playback = blocks[0]
            short = f['harness'].split('::')[-1]
            if crate != 'incrate':   # in-crate playback tests live in a child module of the harness module
                playback = playback.replace(', %s)' % short, ', crate::%s)' % f['harness'])
    found = bool(playback)
    json.dump({'kind': 'kani-harness', 'property': pid, 'unit': r.name, 'crate': crate,
               'harness': f['harness'], 'flags': f.get('flags', []),
               'obligation': {'harness': f['harness'], 'failed_checks': f.get('failed_checks'), 'message': f.get('message'),
                              'repo_file': f.get('repo_file'), 'repo_line': f.get('repo_line')},
               'playback_test': playback,
               'verifier_output': (out or r.raw)[-6000:],
               'how': './check --replay <this file>: runs the playback test natively (cargo kani playback) against /repo, then re-verifies the harness',
               'note': '' if found else 'no-failing-input-found'}, open(path, 'w'), indent=1)
    return path, found


def replay(j):
    """native execution of Kani's counterexample against the real code, then the harness itself"""
    crate_dir = crate_dir_of(j['crate'])
    target_dir = os.path.join(BUILD, 'kani-' + j['crate'])
    rc_native = None
    if j.get('playback_test'):
        inc = os.path.join(VERIF, 'kani', 'incrate')
        env = {'CARGO_TARGET_DIR': target_dir, 'VERIF_KANI_DIR': inc}
        if j['crate'] == 'incrate':
            h = j['harness']
            pg = os.path.join(inc, 'playback_simple.rs' if '::simple::' in h else 'playback_generic_builder.rs' if '::generic::' in h else 'playback_definition.rs')
        else:
            pg = os.path.join(crate_dir, 'src', 'playback_generated.rs')
        keep = open(pg).read()
        try:
            open(pg, 'w').write(j['playback_test'])
            if j['crate'] != 'incrate':
                shutil.copyfile(os.path.join(REPO, 'Cargo.lock'), os.path.join(crate_dir, 'Cargo.lock'))
            rc, out, err, wall, to = _sh(['cargo', 'kani', 'playback', '-Z', 'concrete-playback', '--', 'kani_concrete_playback'],
                                         1500, cwd=crate_dir, env=env)
            txt = out + err
            m = re.search(r'test result: (\w+)\. (\d+) passed; (\d+) failed', txt)
            print('native playback of the counterexample against /repo: %s' % (m.group(0) if m else 'no test result'))
            for l in txt.split('\n'):
                if 'panicked at' in l or l.strip().startswith('"') or 'assertion' in l:
                    print('   ' + l.strip()[:300])
            if m:
                rc_native = 1 if int(m.group(3)) > 0 else 0
        finally:
            open(pg, 'w').write(keep)
    else:
        print('no counterexample in the replay file (no-failing-input-found); failed obligation: %s' % json.dumps(j.get('obligation')))
    if rc_native == 1:
        return 1
    spec = {'kind': 'kani', 'name': 'replay', 'crate': j['crate'], 'harnesses': [j['harness']], 'flags': j.get('flags', []),
            'expect': j.get('expect', {}), 'repo_crates': ['truc', 'truc_runtime'], 'env': {'VERIF_KANI_DIR': os.path.join(VERIF, 'kani', 'incrate')}}
    os.environ['VERIF_NOCACHE'] = '1'
    r = run_kani(spec, 'quick')
    print('harness %s re-verified on the current tree: %s %s' % (j['harness'], r.status, r.reason))
    for f in r.failures:
        print('  failed: %s' % f['message'])
    return 1 if r.status == VIOLATION else (0 if r.status == PASS else 2)


# ------------------------------------------------------------------------------------------------
# C07: call-site receiver classification of the generated modules (type-directed, not solver-backed)
_CALL = re.compile(r'\b((?:[A-Za-z_][A-Za-z0-9_]*\.)*[A-Za-z_][A-Za-z0-9_]*)\.(write|read|get|get_mut)\s*(?:::<[^;]*?>)?\(')


def run_callsites(spec, tier, probes):
    """probes: {primitive: requires_alignment(bool)} from the bare-buffer probes (Kani).  A call
    site whose receiver is a bare `RecordMaybeUninit` local (alignment 1) calling a primitive that
    requires an aligned receiver is an unmet precondition."""
    r = UnitResult(spec['name'], 'call-site classification (syn-free token scan of the emitted modules; type-directed, not solver-backed)')
    t0 = time.time()
    d = os.path.join(BUILD, 'gk-gen')
    files = sorted(f for f in os.listdir(d) if f.endswith('.rs') and not f.startswith('corpus')) if os.path.isdir(d) else []
    if not files:
        r.status, r.reason = INCONCLUSIVE, 'no generated modules dumped (gk unit did not run)'
        return r
    sites = {}
    for fn in files:
        txt = open(os.path.join(d, fn)).read()
        # locals holding a bare buffer
        bare = set(re.findall(r'let\s+(?:mut\s+)?([A-Za-z_][A-Za-z0-9_]*)\s*(?::\s*RecordMaybeUninit<[^>]*>)?\s*=\s*(?:RecordMaybeUninit::new\(\)|unsafe\s*\{\s*std::ptr::read\(&[A-Za-z_.]*data\)\s*\})', txt))
        for n, line in enumerate(txt.split('\n'), 1):
            for m in _CALL.finditer(line):
                recv, prim = m.group(1), m.group(2)
                if recv.split('.')[-1] != 'data' and recv not in bare:
                    continue
                kind = 'bare-local' if recv in bare else 'field-of-aligned-record'
                sites.setdefault((prim, kind), []).append('%s:%d: %s' % (fn, n, line.strip()[:100]))
    r.extra['callsites'] = {'%s on %s' % k: len(v) for k, v in sites.items()}
    r.extra['probes_require_alignment'] = probes
    r.obligations = sum(len(v) for v in sites.values())
    for (prim, kind), lst in sorted(sites.items()):
        if kind == 'bare-local' and probes.get(prim, True):
            r.failures.append({'function': 'generated code', 'callsite': '%s@bare-local' % prim,
                               'message': 'C07: %d call sites store/load through `%s` on a bare RecordMaybeUninit local (alignment 1) while `%s` requires an aligned receiver (Kani probe); e.g. %s'
                                          % (len(lst), prim, prim, lst[0]),
                               'examples': lst[:5], 'tags': ['C07'], 'props': ['C07'], 'no_playback': False,
                               'harness': 'data::bare_u32::probe_%s_on_bare_buffer' % prim, 'crate': 'runtime', 'flags': []})
        else:
            r.discharged += len(lst)
    if r.failures:
        r.status = VIOLATION
        r.reason = '%d kinds of call site with an unmet alignment precondition' % len(r.failures)
    r.wall_s = time.time() - t0
    r.assumptions = ['which receivers are bare is read off the emitted text (local bound to RecordMaybeUninit::new() or to ptr::read(&..data)); '
                     'a value of a repr(align(N)) type lives at an address that is a multiple of N (Rust layout rule)']
    return r

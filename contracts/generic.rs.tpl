// Obligation unit `generic`: the two variant-closing strategies shipped with the GENERIC builder
// (truc/src/record/definition/builder/generic/variant/dummy.rs).  Exact contract: the new variant is
// the previous list with the removed ids filtered out (order kept), followed by the added ids (in
// order, or reversed); the collection of datum definitions is not touched.
//!min-verified: 6
//!assume: std: Vec::retain keeps, in order, exactly the elements its predicate accepts (assume_specification)
//!assume: std: `X.iter().any(p)` is true iff p accepts some element of X (rule R11: rewritten to the external_body wrapper `vx_iter_any(&X, p)` whose body is the original expression; `Iterator::any` itself cannot be given a specification: it is part of vstd's Iterator declaration)
//!assume: derive(Clone, Copy, PartialEq, Eq) on DatumId behaves as documented (rule R5)
//!assume: Verus' encoding of Rust semantics, Z3, rustc front end
//!props fn append_data : C12, C03
//!props fn append_data_reverse : C12, C03
#![feature(allocator_api)]
#![allow(unused_imports, unused_variables, dead_code, non_snake_case, unused_mut)]
use vstd::prelude::*;

verus! {

#[derive(Clone, Copy, PartialEq, Eq, Structural)]
//@struct truc/src/record/definition/mod.rs :: struct DatumId
//@end

//@struct truc/src/record/definition/mod.rs :: struct DatumDefinition
//@end

//@struct truc/src/record/definition/mod.rs :: struct DatumDefinitionCollection
//@end

// std glue (assumed)
pub assume_specification<T, A: core::alloc::Allocator, F: FnMut(&T) -> bool>[ Vec::<T, A>::retain::<F> ](v: &mut Vec<T, A>, f: F)
    requires
        forall|x: &T| f.requires((x,)),
    ensures
        exists|keep: Seq<bool>| keep.len() == old(v)@.len()
            && (forall|i: int| 0 <= i < keep.len() ==> f.ensures((&(#[trigger] old(v)@[i]),), keep[i]))
            && final(v)@ == kept(old(v)@, keep);

#[verifier::external_body]
pub fn vx_iter_any<T, P: FnMut(&T) -> bool>(v: &Vec<T>, p: P) -> (r: bool)
    requires
        forall|x: &T| p.requires((x,)),
    ensures
        r ==> exists|j: int| 0 <= j < v@.len() && p.ensures((&(#[trigger] v@[j]),), true),
        !r ==> forall|j: int| 0 <= j < v@.len() ==> p.ensures((&(#[trigger] v@[j]),), false),
{
    v.iter().any(p)
}

/// the sub-sequence of `s` selected by `keep`, order kept
pub open spec fn kept<T>(s: Seq<T>, keep: Seq<bool>) -> Seq<T>
    decreases s.len(),
{
    if s.len() == 0 || keep.len() != s.len() {
        Seq::empty()
    } else {
        let p = kept(s.drop_last(), keep.drop_last());
        if keep.last() { p.push(s.last()) } else { p }
    }
}

/// `s` with the members of `rm` filtered out, order kept (same definition as in unit layout)
pub open spec fn filtered(s: Seq<DatumId>, rm: Seq<DatumId>) -> Seq<DatumId>
    decreases s.len(),
{
    if s.len() == 0 {
        s
    } else {
        let p = filtered(s.drop_last(), rm);
        if rm.contains(s.last()) { p } else { p.push(s.last()) }
    }
}

pub proof fn lemma_kept_is_filtered(s: Seq<DatumId>, keep: Seq<bool>, rm: Seq<DatumId>)
    requires
        keep.len() == s.len(),
        forall|i: int| 0 <= i < s.len() ==> keep[i] == !rm.contains(#[trigger] s[i]),
    ensures
        kept(s, keep) == filtered(s, rm),
    decreases s.len(),
{
    if s.len() > 0 {
        let s2 = s.drop_last();
        let k2 = keep.drop_last();
        assert forall|i: int| 0 <= i < s2.len() implies k2[i] == !rm.contains(#[trigger] s2[i]) by {
            assert(s2[i] == s[i] && k2[i] == keep[i]);
        }
        lemma_kept_is_filtered(s2, k2, rm);
        assert(keep.last() == keep[s.len() - 1]);
        assert(s.last() == s[s.len() - 1]);
    } else {
        assert(kept(s, keep) =~= filtered(s, rm));
    }
}

//@fn truc/src/record/definition/builder/generic/variant/dummy.rs :: fn append_data
//@ attr #[verifier::loop_isolation(false)]
//@ ret r
//@ ensures
        r@ == filtered(data@, data_to_remove@) + data_to_add@, // [C12]
        *final(_datum_definitions) == *old(_datum_definitions), // [C03]
//@ closure 1 params={datum_id: &DatumId} ret={(b: bool)}
        ensures b == !data_to_remove@.contains(*datum_id)
//@ closure 2 params={did: &DatumId} ret={(c: bool)}
        ensures c == (*did == *datum_id)
//@ hint fn.start
    let ghost data0 = data@;
//@ hint before for#1
    proof {
        let keep = choose|keep: Seq<bool>| keep.len() == data0.len()
            && (forall|i: int| 0 <= i < keep.len() ==> keep[i] == !data_to_remove@.contains(#[trigger] data0[i]))
            && data@ == kept(data0, keep);
        lemma_kept_is_filtered(data0, keep, data_to_remove@);
        assert(data@ == filtered(data0, data_to_remove@) + data_to_add@.take(0));
    }
//@ loop 1 iter=it
        invariant
            data@ == filtered(data0, data_to_remove@) + data_to_add@.take(it.index@),
//@ hint loop1.end
        proof {
            assert(data_to_add@.take(it.index@ + 1) == data_to_add@.take(it.index@).push(datum_id));
        }
//@ hint fn.end
    proof { assert(data_to_add@.take(data_to_add@.len() as int) == data_to_add@); }
//@end

//@fn truc/src/record/definition/builder/generic/variant/dummy.rs :: fn append_data_reverse
//@ attr #[verifier::loop_isolation(false)]
//@ ret r
//@ ensures
        r@ == filtered(data@, data_to_remove@) + data_to_add@.reverse(), // [C12]
        *final(_datum_definitions) == *old(_datum_definitions), // [C03]
//@ closure 1 params={datum_id: &DatumId} ret={(b: bool)}
        ensures b == !data_to_remove@.contains(*datum_id)
//@ closure 2 params={did: &DatumId} ret={(c: bool)}
        ensures c == (*did == *datum_id)
//@ hint fn.start
    let ghost data0 = data@;
    let ghost radd = data_to_add@.reverse();
//@ hint before for#1
    proof {
        let keep = choose|keep: Seq<bool>| keep.len() == data0.len()
            && (forall|i: int| 0 <= i < keep.len() ==> keep[i] == !data_to_remove@.contains(#[trigger] data0[i]))
            && data@ == kept(data0, keep);
        lemma_kept_is_filtered(data0, keep, data_to_remove@);
        assert(data@ == filtered(data0, data_to_remove@) + radd.take(0));
    }
//@ loop 1 iter=it
        invariant
            it.seq().len() == radd.len(),
            forall|i: int| 0 <= i < radd.len() ==> *it.seq()[i] == radd[i],
            data@ == filtered(data0, data_to_remove@) + radd.take(it.index@),
//@ hint loop1.end
        proof {
            assert(radd.take(it.index@ + 1) == radd.take(it.index@).push(datum_id));
        }
//@ hint fn.end
    proof { assert(radd.take(radd.len() as int) == radd); }
//@end

} // verus!

// crate-path scaffolding
#[allow(unused_imports)]
pub mod record {
    pub mod definition { pub use crate::*; }
}
fn main() {}

// Obligation unit `native`: text rendering of a definition (C13, D2) and the entry points of the
// native builder that attach type information (C18, N1).
//!min-verified: 14
//!assume: rule R7: `write!(f, ..)?;` statements are dropped (formatter side effects and the early Err return are not modelled); D2's obligation is panic-freedom only
//!assume: the inner generic builder's add_datum stores the details it is handed verbatim (contract proved in unit builder, restated here as external_body)
//!assume: TypeResolver is abstract: `type_info::<T>()` / `dynamic_type_info(name)` return the uninterpreted spec values `spec_type_info::<T>()` / `spec_dynamic_type_info(name)` of the resolver
//!assume: String::clone / TypeInfo::clone (derive) return an equal value
//!assume: Verus' encoding of Rust semantics, Z3, rustc front end
//!props fn fmt_variant_representation : C13
//!props fn add_datum : C18
//!props fn add_datum_allow_uninit : C18
//!props fn add_datum_override : C18
//!props fn copy_datum : C18
//!props fn remove_datum : C12
//!props fn build : C12
#![allow(unused_imports, unused_variables, dead_code, non_snake_case, unused_mut, unused_assignments)]
use vstd::prelude::*;
use std::fmt::Formatter;

impl std::fmt::Display for DatumId {
    fn fmt(&self, f: &mut std::fmt::Formatter<'_>) -> std::fmt::Result { write!(f, "{}", self.0) }
}

verus! {

#[derive(Clone, Copy, PartialEq, Eq, Structural)]
//@struct truc/src/record/definition/mod.rs :: struct DatumId
//@end

#[derive(Clone, Copy, PartialEq, Eq, Structural)]
//@struct truc/src/record/definition/mod.rs :: struct RecordVariantId
//@end

//@struct truc/src/record/type_resolver.rs :: struct TypeInfo
//@end

//@struct truc/src/record/type_resolver.rs :: struct DynamicTypeInfo
//@end

//@struct truc/src/record/definition/mod.rs :: struct NativeDatumDetails
//@end

//@struct truc/src/record/definition/mod.rs :: struct DatumDefinition
//@end

//@struct truc/src/record/definition/mod.rs :: struct DatumDefinitionCollection
//@end

//@struct truc/src/record/definition/mod.rs :: struct RecordVariant
//@end

//@struct truc/src/record/definition/mod.rs :: struct RecordDefinition
//@end

//@struct truc/src/record/definition/builder/generic/mod.rs :: struct GenericRecordDefinitionBuilder
//@end

//@struct truc/src/record/definition/builder/native/mod.rs :: struct NativeRecordDefinitionBuilder
//@end

//@struct truc/src/record/definition/builder/native/mod.rs :: struct DatumDefinitionOverride
//@end

impl Clone for TypeInfo {
    fn clone(&self) -> (r: Self)
        ensures r == *self,
    {
        TypeInfo { name: self.name.clone(), size: self.size, align: self.align }
    }
}

pub type Defs = Seq<DatumDefinition<NativeDatumDetails>>;
pub open spec fn off(defs: Defs, id: DatumId) -> int { defs[id.0 as int].details.offset as int }
pub open spec fn sz(defs: Defs, id: DatumId) -> int { defs[id.0 as int].details.type_info.size as int }
pub open spec fn dend(defs: Defs, id: DatumId) -> int { off(defs, id) + sz(defs, id) }
pub open spec fn valid_ids(data: Seq<DatumId>, defs: Defs) -> bool {
    forall|i: int| 0 <= i < data.len() ==> (#[trigger] data[i]).0 < defs.len()
}
pub open spec fn ordered(data: Seq<DatumId>, defs: Defs) -> bool {
    forall|i: int, j: int| #![trigger data[i], data[j]] 0 <= i < j < data.len() ==> dend(defs, data[i]) <= off(defs, data[j])
}
pub open spec fn bounded(data: Seq<DatumId>, defs: Defs, b: int) -> bool {
    forall|i: int| 0 <= i < data.len() ==> dend(defs, #[trigger] data[i]) <= b
}

// accessors (R8)
impl NativeDatumDetails {
//@fn truc/src/record/definition/mod.rs :: impl NativeDatumDetails :: fn offset
//@ ret r
//@ ensures
        r == self.offset
//@end
//@fn truc/src/record/definition/mod.rs :: impl NativeDatumDetails :: fn size
//@ ret r
//@ ensures
        r == self.type_info.size
//@end
//@fn truc/src/record/definition/mod.rs :: impl NativeDatumDetails :: fn type_info
//@ ret r
//@ ensures
        *r == self.type_info
//@end
//@fn truc/src/record/definition/mod.rs :: impl NativeDatumDetails :: fn allow_uninit
//@ ret r
//@ ensures
        r == self.allow_uninit
//@end
}
impl<D> DatumDefinition<D> {
//@fn truc/src/record/definition/mod.rs :: impl<D> DatumDefinition<D> :: fn details
//@ ret r
//@ ensures
        *r == self.details
//@end
//@fn truc/src/record/definition/mod.rs :: impl<D> DatumDefinition<D> :: fn name
//@ ret r
//@ ensures
        r@ == self.name@
//@end
}
impl<D> DatumDefinitionCollection<D> {
//@fn truc/src/record/definition/mod.rs :: impl<D> DatumDefinitionCollection<D> :: fn get
//@ ret r
//@ ensures
        r.is_some() == (id.0 < self.data@.len()),
        r.is_some() ==> *r.unwrap() == self.data@[id.0 as int]
//@end
}

// ---------------------------------------------------------------------------------------------
// D2: rendering a variant never panics when its list is in address order

impl RecordDefinition<NativeDatumDetails> {
//@fn truc/src/record/definition/mod.rs :: impl RecordDefinition<NativeDatumDetails> :: fn fmt_variant_representation
//@ attr #[verifier::loop_isolation(false)]
//@ vis pub
//@ requires
        valid_ids(variant.data@, datum_definitions.data@),
        ordered(variant.data@, datum_definitions.data@),
        bounded(variant.data@, datum_definitions.data@, usize::MAX as int)
//@ loop 1 iter=it
        invariant
            valid_ids(variant.data@, datum_definitions.data@),
            ordered(variant.data@, datum_definitions.data@),
            bounded(variant.data@, datum_definitions.data@, usize::MAX as int),
            it.index@ == 0 ==> byte_offset == 0,
            it.index@ > 0 ==> byte_offset == dend(datum_definitions.data@, variant.data@[it.index@ - 1]),
//@ hint loop1.start
            proof {
                assert(d == variant.data@[it.index@]);
                assert(dend(datum_definitions.data@, d) <= usize::MAX);
            }
//@end
}

// ---------------------------------------------------------------------------------------------
// N1: every entry point records exactly the resolver's answer

pub trait TypeResolver {
    spec fn spec_type_info<T>(&self) -> TypeInfo;
    spec fn spec_dynamic_type_info(&self, type_name: Seq<char>) -> DynamicTypeInfo;

//@fn truc/src/record/type_resolver.rs :: trait TypeResolver :: fn type_info
//@ ret r
//@ ensures
        r == self.spec_type_info::<T>()
//@end

//@fn truc/src/record/type_resolver.rs :: trait TypeResolver :: fn dynamic_type_info
//@ ret r
//@ ensures
        r == self.spec_dynamic_type_info(type_name@)
//@end
}

impl<D> GenericRecordDefinitionBuilder<D> {
    /// contract proved in unit `builder` (there without the `name` clause): restated
//@fn truc/src/record/definition/builder/generic/mod.rs :: impl<D> GenericRecordDefinitionBuilder<D> :: fn add_datum
//@ attr #[verifier::external_body]
//@ sig-only
//@ ret r
//@ ensures
        r.is_err() ==> *final(self) == *old(self),
        r.is_ok() ==> r.unwrap().0 == old(self).datum_definitions.data@.len()
            && final(self).datum_definitions.data@.len() == old(self).datum_definitions.data@.len() + 1
            && final(self).datum_definitions.data@[r.unwrap().0 as int].details == details
//@end
}

// C12 for the native builder: its operations are delegations; each one is extracted and proved to
// have exactly the effect of the generic builder's operation (whose contract is proved in unit
// `builder`).  `inner_*` are uninterpreted relations standing for "what the generic operation does".
pub uninterp spec fn inner_remove<D>(b0: GenericRecordDefinitionBuilder<D>, id: DatumId, b1: GenericRecordDefinitionBuilder<D>, r: Result<(), String>) -> bool;
pub uninterp spec fn inner_build<D>(b0: GenericRecordDefinitionBuilder<D>, r: RecordDefinition<D>) -> bool;

impl<D> GenericRecordDefinitionBuilder<D> {
//@fn truc/src/record/definition/builder/generic/mod.rs :: impl<D> GenericRecordDefinitionBuilder<D> :: fn remove_datum
//@ attr #[verifier::external_body]
//@ sig-only
//@ ret r
//@ ensures
        inner_remove(*old(self), datum_id, *final(self), r)
//@end

//@fn truc/src/record/definition/builder/generic/mod.rs :: impl<D> GenericRecordDefinitionBuilder<D> :: fn build
//@ attr #[verifier::external_body]
//@ sig-only
//@ ret r
//@ ensures
        inner_build(self, r)
//@end
}

/// the details recorded for the datum an entry point just added
pub open spec fn recorded<R: TypeResolver>(b: NativeRecordDefinitionBuilder<R>, id: DatumId) -> NativeDatumDetails {
    b.inner.datum_definitions.data@[id.0 as int].details
}

impl<R> NativeRecordDefinitionBuilder<R>
where
    R: TypeResolver,
{
//@fn truc/src/record/definition/builder/native/mod.rs :: impl<R> NativeRecordDefinitionBuilder<R> where R: TypeResolver, :: fn add_datum
//@ ret r
//@ ensures
        final(self).type_resolver == old(self).type_resolver,
        r.is_ok() ==> recorded(*final(self), r.unwrap()) == (NativeDatumDetails {
            offset: usize::MAX,
            type_info: old(self).type_resolver.spec_type_info::<T>(),
            allow_uninit: false,
        }), // [C18]
//@end

//@fn truc/src/record/definition/builder/native/mod.rs :: impl<R> NativeRecordDefinitionBuilder<R> where R: TypeResolver, :: fn add_datum_allow_uninit
//@ ret r
//@ ensures
        r.is_ok() ==> recorded(*final(self), r.unwrap()) == (NativeDatumDetails {
            offset: usize::MAX,
            type_info: old(self).type_resolver.spec_type_info::<T>(),
            allow_uninit: true,
        }), // [C18]
//@end

//@fn truc/src/record/definition/builder/native/mod.rs :: impl<R> NativeRecordDefinitionBuilder<R> where R: TypeResolver, :: fn add_datum_override
//@ ret r
//@ ensures
        r.is_ok() ==> {
            let base = old(self).type_resolver.spec_type_info::<T>();
            let d = recorded(*final(self), r.unwrap());
            &&& d.offset == usize::MAX
            &&& d.type_info.name == (if datum_override.type_name.is_some() { datum_override.type_name.unwrap() } else { base.name })
            &&& d.type_info.size == (if datum_override.size.is_some() { datum_override.size.unwrap() } else { base.size })
            &&& d.type_info.align == (if datum_override.align.is_some() { datum_override.align.unwrap() } else { base.align })
            &&& d.allow_uninit == (if datum_override.allow_uninit.is_some() { datum_override.allow_uninit.unwrap() } else { false })
        }, // [C18]
//@end

// add_dynamic_datum: `T: AsRef<str>` -- AsRef's PointeeSized bound cannot be declared to this Verus (external_trait_specification
// bound mismatch); the function is NOT under contract here (listed as unchecked in the evidence of C18).

//@fn truc/src/record/definition/builder/native/mod.rs :: impl<R> NativeRecordDefinitionBuilder<R> where R: TypeResolver, :: fn remove_datum
//@ ret r
//@ ensures
        inner_remove(old(self).inner, datum_id, final(self).inner, r), // [C12]
        final(self).type_resolver == old(self).type_resolver,
//@end

//@fn truc/src/record/definition/builder/native/mod.rs :: impl<R> NativeRecordDefinitionBuilder<R> where R: TypeResolver, :: fn build
//@ ret r
//@ ensures
        inner_build(self.inner, r), // [C12]
//@end

//@fn truc/src/record/definition/builder/native/mod.rs :: impl<R> NativeRecordDefinitionBuilder<R> where R: TypeResolver, :: fn copy_datum
//@ ret r
//@ ensures
        r.is_ok() ==> recorded(*final(self), r.unwrap()) == (NativeDatumDetails {
            offset: usize::MAX,
            type_info: datum.details.type_info,
            allow_uninit: datum.details.allow_uninit,
        }), // [C18]
//@end
}

} // verus!

// crate-path scaffolding: `crate::record::…` paths used inside extracted functions resolve to the
// items of this single-file unit
#[allow(unused_imports)]
pub mod record {
    pub mod type_resolver { pub use crate::*; }
    pub mod type_name { pub use crate::*; }
    pub mod definition {
        pub use crate::*;
        pub mod builder {
            pub use crate::*;
            pub mod native { pub use crate::*; pub mod variant { pub use crate::*; } }
            pub mod generic { pub use crate::*; pub mod variant { pub use crate::*; } }
        }
    }
}
fn main() {}

// Obligation unit `layout`: variant-closing strategies of the native builder.
// Everything between `// from <file>:<line>` markers and the next blank template text is copied
// from /repo on every run by lib/vx.py; contracts are spliced in.  See DESIGN.md 3.2.
#![allow(unused_imports, unused_variables, dead_code, non_snake_case, unused_mut)]
use vstd::prelude::*;

impl std::fmt::Display for DatumId {
    fn fmt(&self, f: &mut std::fmt::Formatter<'_>) -> std::fmt::Result { write!(f, "{}", self.0) }
}

verus! {

// ---------------------------------------------------------------------------------------------
// Types (R5: attributes and derives dropped, fields made pub)

#[derive(Clone, Copy, PartialEq, Eq)]
//@struct truc/src/record/definition/mod.rs :: struct DatumId
//@end

//@struct truc/src/record/type_resolver.rs :: struct TypeInfo
//@end

//@struct truc/src/record/definition/mod.rs :: struct NativeDatumDetails
//@end

//@struct truc/src/record/definition/mod.rs :: struct DatumDefinition
//@end

//@struct truc/src/record/definition/mod.rs :: struct DatumDefinitionCollection
//@end

// ---------------------------------------------------------------------------------------------
// Spec vocabulary (DESIGN.md 4)

pub type Defs = Seq<DatumDefinition<NativeDatumDetails>>;

pub open spec fn off(defs: Defs, id: DatumId) -> int { defs[id.0 as int].details.offset as int }
pub open spec fn sz(defs: Defs, id: DatumId) -> int { defs[id.0 as int].details.type_info.size as int }
pub open spec fn alg(defs: Defs, id: DatumId) -> int { defs[id.0 as int].details.type_info.align as int }
pub open spec fn dend(defs: Defs, id: DatumId) -> int { off(defs, id) + sz(defs, id) }

pub open spec fn valid_ids(data: Seq<DatumId>, defs: Defs) -> bool {
    forall|i: int| 0 <= i < data.len() ==> (#[trigger] data[i]).0 < defs.len()
}
pub open spec fn distinct(data: Seq<DatumId>) -> bool {
    forall|i: int, j: int| #![trigger data[i], data[j]] 0 <= i < j < data.len() ==> data[i] != data[j]
}
pub open spec fn ordered(data: Seq<DatumId>, defs: Defs) -> bool {
    forall|i: int, j: int| #![trigger data[i], data[j]] 0 <= i < j < data.len() ==> dend(defs, data[i]) <= off(defs, data[j])
}
pub open spec fn aligned(data: Seq<DatumId>, defs: Defs) -> bool {
    forall|i: int| 0 <= i < data.len() ==>
        alg(defs, #[trigger] data[i]) > 0 && off(defs, data[i]) % alg(defs, data[i]) == 0
}
/// every listed datum ends at or before `b` (domain bound: makes overflow-freedom provable)
pub open spec fn bounded(data: Seq<DatumId>, defs: Defs, b: int) -> bool {
    forall|i: int| 0 <= i < data.len() ==> dend(defs, #[trigger] data[i]) <= b
}
/// The invariant of a variant's datum list.
pub open spec fn wf(data: Seq<DatumId>, defs: Defs) -> bool {
    valid_ids(data, defs) && distinct(data) && ordered(data, defs) && aligned(data, defs)
}
/// Frame: only the `offset` of the ids in `except` may differ.
pub open spec fn same_except(d0: Defs, d1: Defs, except: Seq<DatumId>) -> bool {
    &&& d0.len() == d1.len()
    &&& forall|k: int| 0 <= k < d0.len() ==>
            (#[trigger] d0[k]).id == d1[k].id && d0[k].name == d1[k].name
            && d0[k].details.type_info == d1[k].details.type_info
            && d0[k].details.allow_uninit == d1[k].details.allow_uninit
    &&& forall|k: int| 0 <= k < d0.len() && !except.contains(DatumId(k as usize)) ==>
            (#[trigger] d0[k]).details.offset == d1[k].details.offset
}

pub const B: usize = 0x4000_0000;   // ends of pre-existing data
pub const S: usize = 0x4000;        // size + align of one added datum
pub const N: usize = 0x1_0000;      // additions per close

pub open spec fn al(c: int, a: int) -> int { (c + a - 1) / a * a }

pub open spec fn end_of(data: Seq<DatumId>, defs: Defs) -> int {
    if data.len() == 0 { 0 } else { dend(defs, data[data.len() - 1]) }
}

/// what the caller of a strategy guarantees about the data to add
pub open spec fn add_ok(add: Seq<DatumId>, data: Seq<DatumId>, defs: Defs) -> bool {
    &&& valid_ids(add, defs)
    &&& distinct(add)
    &&& forall|i: int, j: int| 0 <= i < add.len() && 0 <= j < data.len() ==> add[i] != data[j]
    &&& forall|i: int| 0 <= i < add.len() ==>
            alg(defs, #[trigger] add[i]) > 0 && sz(defs, add[i]) + alg(defs, add[i]) <= S
    &&& add.len() <= N
}

pub open spec fn members_are(out: Seq<DatumId>, data: Seq<DatumId>, add: Seq<DatumId>) -> bool {
    &&& out.len() == data.len() + add.len()
    &&& forall|id: DatumId| out.contains(id) <==> data.contains(id) || add.contains(id)
}

/// `r` is `s` with the members of `rm` filtered out, order kept
pub open spec fn filtered(s: Seq<DatumId>, rm: Seq<DatumId>) -> Seq<DatumId> {
    s.filter(|d: DatumId| !rm.contains(d))
}

// ---------------------------------------------------------------------------------------------
// Lemmas

pub proof fn lemma_al(c: int, a: int)
    requires a > 0, c >= 0,
    ensures al(c, a) >= c, al(c, a) < c + a, al(c, a) % a == 0, (c % a == 0 ==> al(c, a) == c),
{
    let x = c + a - 1;
    let q = x / a;
    vstd::arithmetic::div_mod::lemma_fundamental_div_mod(x, a);
    vstd::arithmetic::div_mod::lemma_mod_pos_bound(x, a);
    vstd::arithmetic::div_mod::lemma_mod_multiples_basic(q, a);
    vstd::arithmetic::mul::lemma_mul_is_commutative(a, q);
    if c % a == 0 {
        let k = c / a;
        vstd::arithmetic::div_mod::lemma_fundamental_div_mod(c, a);
        vstd::arithmetic::mul::lemma_mul_is_commutative(a, k);
        assert(x == k * a + (a - 1));
        vstd::arithmetic::div_mod::lemma_fundamental_div_mod_converse(x, a, k, a - 1);
    }
}

/// C01: address order implies pairwise disjoint byte ranges.
pub proof fn lemma_wf_implies_disjoint(data: Seq<DatumId>, defs: Defs, i: int, j: int)
    requires wf(data, defs), 0 <= i < data.len(), 0 <= j < data.len(), i != j,
    ensures
        dend(defs, data[i]) <= off(defs, data[j]) || dend(defs, data[j]) <= off(defs, data[i]),
{
}

/// C02: non-zero-size data are listed in strictly increasing address order.
pub proof fn lemma_wf_nonzst_strict(data: Seq<DatumId>, defs: Defs, i: int, j: int)
    requires wf(data, defs), 0 <= i < j < data.len(), sz(defs, data[i]) > 0,
    ensures off(defs, data[i]) < off(defs, data[j]),
{
}

// ---------------------------------------------------------------------------------------------
// R8: accessors, extracted with definitional contracts

impl NativeDatumDetails {
//@fn truc/src/record/definition/mod.rs :: impl NativeDatumDetails :: fn offset
//@ ret r
//@ ensures
        r == self.offset
//@end

//@fn truc/src/record/definition/mod.rs :: impl NativeDatumDetails :: fn size
//@ ret r
//@ ensures
        r == self.type_info.size
//@end

//@fn truc/src/record/definition/mod.rs :: impl NativeDatumDetails :: fn type_align
//@ ret r
//@ ensures
        r == self.type_info.align
//@end
}

impl<D> DatumDefinition<D> {
//@fn truc/src/record/definition/mod.rs :: impl<D> DatumDefinition<D> :: fn details
//@ ret r
//@ ensures
        *r == self.details
//@end

//@fn truc/src/record/definition/mod.rs :: impl<D> DatumDefinition<D> :: fn details_mut
//@ ret r
//@ ensures
        *r == old(self).details,
        final(self).id == old(self).id,
        final(self).name == old(self).name,
        final(self).details == *final(r)
//@end
}

impl<D> DatumDefinitionCollection<D> {
//@fn truc/src/record/definition/mod.rs :: impl<D> DatumDefinitionCollection<D> :: fn get
//@ ret r
//@ ensures
        r.is_some() == (id.0 < self.data@.len()),
        r.is_some() ==> *r.unwrap() == self.data@[id.0 as int]
//@end

//@fn truc/src/record/definition/mod.rs :: impl<D> DatumDefinitionCollection<D> :: fn get_mut
//@ ret r
//@ ensures
        r.is_some() == (id.0 < old(self).data@.len()),
        r.is_some() ==> *r.unwrap() == old(self).data@[id.0 as int]
            && final(self).data@ == old(self).data@.update(id.0 as int, *final(r.unwrap()))
//@end
}

// ---------------------------------------------------------------------------------------------
// L1 align_bytes

//@fn truc/src/record/definition/builder/native/variant/mod.rs :: fn align_bytes
//@ ret r
//@ requires
        align > 0,
        caret + align <= usize::MAX
//@ ensures
        r == al(caret as int, align as int),
        caret <= r < caret + align,
        r as int % align as int == 0,
        caret as int % align as int == 0 ==> r == caret
//@ hint fn.start
    proof { lemma_al(caret as int, align as int); }
//@end

// ---------------------------------------------------------------------------------------------
// L2-L4 NativeDataUpdater for Vec<DatumId>

pub trait NativeDataUpdater {
    spec fn seq(&self) -> Seq<DatumId>;

//@fn truc/src/record/definition/builder/native/variant/mod.rs :: trait NativeDataUpdater :: fn end
//@ ret r
//@ requires
        valid_ids(self.seq(), datum_definitions.data@),
        bounded(self.seq(), datum_definitions.data@, usize::MAX as int)
//@ ensures
        r == end_of(self.seq(), datum_definitions.data@)
//@end

//@fn truc/src/record/definition/builder/native/variant/mod.rs :: trait NativeDataUpdater :: fn push_datum
//@ ret r
//@ requires
        wf(old(self).seq(), old(datum_definitions).data@),
        bounded(old(self).seq(), old(datum_definitions).data@, (usize::MAX - S) as int),
        datum_id.0 < old(datum_definitions).data@.len(),
        !old(self).seq().contains(datum_id),
        alg(old(datum_definitions).data@, datum_id) > 0,
        alg(old(datum_definitions).data@, datum_id) <= S
//@ ensures
        final(self).seq() == old(self).seq().push(datum_id),
        r.0 == end_of(old(self).seq(), old(datum_definitions).data@),
        r.1 == al(r.0 as int, alg(old(datum_definitions).data@, datum_id)),
        off(final(datum_definitions).data@, datum_id) == r.1,
        same_except(old(datum_definitions).data@, final(datum_definitions).data@, seq![datum_id]),
        wf(final(self).seq(), final(datum_definitions).data@)
//@end
}

impl NativeDataUpdater for Vec<DatumId> {
    open spec fn seq(&self) -> Seq<DatumId> { self@ }

//@fn truc/src/record/definition/builder/native/variant/mod.rs :: impl NativeDataUpdater for Vec<DatumId> :: fn end
//@ closure 1 params={d__r: &DatumId} ret={(r: usize)}
        requires
            d__r.0 < datum_definitions.data@.len(),
            dend(datum_definitions.data@, *d__r) <= usize::MAX,
        ensures
            r == dend(datum_definitions.data@, *d__r),
//@ hint fn.start
        proof {
            if self@.len() > 0 {
                let x = self@[self@.len() - 1];
                assert(x.0 < datum_definitions.data@.len());
                assert(dend(datum_definitions.data@, x) <= usize::MAX);
            }
        }
//@end

//@fn truc/src/record/definition/builder/native/variant/mod.rs :: impl NativeDataUpdater for Vec<DatumId> :: fn push_datum
//@ hint fn.start
        let ghost data0 = self@;
        let ghost defs0 = datum_definitions.data@;
        proof {
            assert forall|i: int| 0 <= i < data0.len() implies dend(defs0, #[trigger] data0[i]) <= usize::MAX by {}
        }
//@ hint fn.end
        proof {
            let defs1 = datum_definitions.data@;
            let data1 = self@;
            assert(forall|k: int| 0 <= k < defs1.len() && k != datum_id.0 ==> defs1[k] == defs0[k]);
            assert(forall|i: int| 0 <= i < data0.len() ==> data0[i] != datum_id);
            assert(seq![datum_id][0] == datum_id);
            assert(forall|i: int| 0 <= i < data0.len() ==> off(defs1, #[trigger] data1[i]) == off(defs0, data0[i]));
            if data0.len() > 0 {
                assert(forall|i: int| 0 <= i < data0.len() - 1 ==> dend(defs0, data0[i]) <= off(defs0, data0[data0.len() - 1]));
            }
        }
//@end
}

} // verus!
fn main() {}

//! C12 (B5): the name lookup of the generic builder and the duplicate-name rejection of
//! `add_datum` -- the one part of the builder Verus cannot take (filter / chain / filter_map /
//! find).  One operation per harness on a small prepared state; names from {"a","b","c","d"}.
//! BOUNDED: <= 2 data in the last variant, <= 1 pending removal, <= 1 pending addition.
use truc::record::definition::{
    builder::generic::{variant::append_data, GenericRecordDefinitionBuilder},
    DatumId,
};

/// error texts are not part of any property; formatting them dominates CBMC's cost
pub fn fmt_stub(_args: std::fmt::Arguments<'_>) -> String {
    String::new()
}

struct Prepared {
    b: GenericRecordDefinitionBuilder<()>,
    a: DatumId,
    bb: DatumId,
    c: Option<DatumId>,
    rm_a: bool,
}

/// last variant [a, b]; optionally `a` pending removal; optionally `c` pending addition
fn prepare() -> Prepared {
    let mut b = GenericRecordDefinitionBuilder::<()>::new();
    let a = b.add_datum("a", ()).unwrap();
    let bb = b.add_datum("b", ()).unwrap();
    b.close_record_variant_with(append_data);
    let rm_a: bool = kani::any();
    if rm_a {
        b.remove_datum(a).unwrap();
    }
    let add_c: bool = kani::any();
    let c = if add_c { Some(b.add_datum("c", ()).unwrap()) } else { None };
    Prepared { b, a, bb, c, rm_a }
}

fn pick() -> (u8, &'static str) {
    let which: u8 = kani::any();
    kani::assume(which < 4);
    (which, match which { 0 => "a", 1 => "b", 2 => "c", _ => "d" })
}

/// does the variant being built carry that name? (the specification)
fn expected(p: &Prepared, which: u8) -> bool {
    match which { 0 => !p.rm_a, 1 => true, 2 => p.c.is_some(), _ => false }
}

#[kani::proof]
#[kani::unwind(6)]
#[kani::stub(alloc::fmt::format, fmt_stub)]
pub fn c12_lookup_by_name_in_current_variant() {
    let p = prepare();
    let (which, name) = pick();
    let found = p.b.get_current_datum_definition_by_name(name);
    assert!(found.is_some() == expected(&p, which), "lookup disagrees with last - removed + added");
    if let Some(d) = found {
        let want = match which { 0 => p.a, 1 => p.bb, _ => p.c.unwrap() };
        assert!(d.id() == want, "lookup returned another datum");
    }
    kani::cover!(which == 0 && p.rm_a, "reachable: name of a datum pending removal");
    kani::cover!(which == 2 && p.c.is_some(), "reachable: name of a pending addition");
}

#[kani::proof]
#[kani::unwind(6)]
#[kani::stub(alloc::fmt::format, fmt_stub)]
pub fn c12_current_data_is_last_minus_removed_plus_added() {
    let p = prepare();
    let mut it = p.b.get_current_data();
    if !p.rm_a {
        assert!(it.next() == Some(p.a));
    }
    assert!(it.next() == Some(p.bb));
    if let Some(c) = p.c {
        assert!(it.next() == Some(c));
    }
    assert!(it.next().is_none());
}

#[kani::proof]
#[kani::unwind(6)]
#[kani::stub(alloc::fmt::format, fmt_stub)]
pub fn c12_add_rejects_exactly_clashing_names_and_changes_nothing() {
    let mut p = prepare();
    let (which, name) = pick();
    let clash = expected(&p, which);
    let r = p.b.add_datum(name, ());
    assert!(r.is_err() == clash, "add_datum must fail exactly when the name is carried by the variant being built");
    // observable state after a rejected request: unchanged
    let mut it = p.b.get_current_data();
    if !p.rm_a {
        assert!(it.next() == Some(p.a));
    }
    assert!(it.next() == Some(p.bb));
    if let Some(c) = p.c {
        assert!(it.next() == Some(c));
    }
    match r {
        Err(_) => assert!(it.next().is_none(), "rejected request changed the current data"),
        Ok(id) => {
            assert!(it.next() == Some(id));
            assert!(it.next().is_none());
            // ids are never reused
            assert!(id != p.a && id != p.bb && Some(id) != p.c);
        }
    }
    kani::cover!(which == 0 && p.rm_a && r.is_ok(), "reachable: re-using the name of a datum pending removal is accepted");
}

#[kani::proof]
#[kani::unwind(6)]
#[kani::stub(alloc::fmt::format, fmt_stub)]
pub fn c12_variant_lookup_by_name() {
    let mut p = prepare();
    let v0 = p.b.close_record_variant_with(append_data);
    let (which, name) = pick();
    // variant 0 is [a, b] whatever happened later
    let first = p.b.get_variant(0usize.into()).unwrap().id();
    let f0 = p.b.get_variant_datum_definition_by_name(first, name);
    assert!(f0.is_some() == (which < 2));
    let f1 = p.b.get_variant_datum_definition_by_name(v0, name);
    assert!(f1.is_some() == expected(&p, which));
}

// ---------------------------------------------------------------------------------------------
// C18: add_dynamic_datum (the one datum-adding entry point Verus cannot take: `T: AsRef<str>`).
// Contract: the recorded size / alignment / may-be-uninitialised flag are exactly what the resolver
// answers for the requested type name; the datum is not placed yet.  The resolver is a specification
// resolver with symbolic answers for two type names.  BOUNDED: first request on a fresh builder.
use truc::record::{
    definition::builder::native::NativeRecordDefinitionBuilder,
    type_resolver::{DynamicTypeInfo, TypeInfo, TypeResolver},
};

struct SpecResolver {
    p: (usize, usize, bool),
    q: (usize, usize, bool),
}

impl TypeResolver for SpecResolver {
    fn type_info<T>(&self) -> TypeInfo {
        unreachable!()
    }
    fn dynamic_type_info(&self, type_name: &str) -> DynamicTypeInfo {
        let (size, align, allow_uninit) = if type_name == "P" { self.p } else { self.q };
        DynamicTypeInfo { info: TypeInfo { name: String::new(), size, align }, allow_uninit }
    }
}

#[kani::proof]
#[kani::unwind(6)]
#[kani::stub(alloc::fmt::format, fmt_stub)]
pub fn c18_add_dynamic_datum_records_the_resolvers_answer() {
    let r = SpecResolver { p: (kani::any(), kani::any(), kani::any()), q: (kani::any(), kani::any(), kani::any()) };
    let (p, q) = (r.p, r.q);
    let mut b = NativeRecordDefinitionBuilder::new(r);
    let ask_p: bool = kani::any();
    let id = b.add_dynamic_datum("a", if ask_p { "P" } else { "Q" }).unwrap();
    let d = b.get_current_datum_definition_by_name("a").unwrap();
    let want = if ask_p { p } else { q };
    assert!(d.id() == id);
    assert!(d.details().size() == want.0, "C18: recorded size is not the resolver's answer for the requested type");
    assert!(d.details().type_align() == want.1, "C18: recorded alignment is not the resolver's answer for the requested type");
    assert!(d.details().allow_uninit() == want.2, "C18: recorded may-be-uninitialised flag is not the resolver's answer");
    assert!(d.details().offset() == usize::MAX, "C18: a datum is placed before its variant is closed");
    kani::cover!(ask_p && want.2, "reachable: first type, may be uninitialised");
}

/// second request: a clashing name is rejected and records nothing; another name records the answer
#[kani::proof]
#[kani::unwind(6)]
#[kani::stub(alloc::fmt::format, fmt_stub)]
pub fn c18_add_dynamic_datum_second_request() {
    let r = SpecResolver { p: (kani::any(), kani::any(), kani::any()), q: (kani::any(), kani::any(), kani::any()) };
    let (p, q) = (r.p, r.q);
    let mut b = NativeRecordDefinitionBuilder::new(r);
    let first = b.add_dynamic_datum("a", "P").unwrap();
    let clash: bool = kani::any();
    let res = b.add_dynamic_datum(if clash { "a" } else { "b" }, "Q");
    assert!(res.is_err() == clash, "C12: add_dynamic_datum must fail exactly for a name the variant being built carries");
    let a = b.get_current_datum_definition_by_name("a").unwrap();
    assert!(a.id() == first && a.details().size() == p.0 && a.details().type_align() == p.1 && a.details().allow_uninit() == p.2,
        "C18: an earlier datum's type information changed");
    match res {
        Ok(id) => {
            let d = b.get_current_datum_definition_by_name("b").unwrap();
            assert!(d.id() == id && id != first);
            assert!(d.details().size() == q.0 && d.details().type_align() == q.1 && d.details().allow_uninit() == q.2 && d.details().offset() == usize::MAX,
                "C18: recorded type information is not the resolver's answer for the requested type");
        }
        Err(_) => assert!(b.get_current_datum_definition_by_name("b").is_none()),
    }
}

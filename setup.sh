#!/bin/sh
# Builds what the checks need from files on disk only (offline).  Everything is rebuilt by the
# checks themselves when /repo changes; this just warms the caches.
cd "$(dirname "$0")" || exit 1
export CARGO_NET_OFFLINE=true
mkdir -p build evidence replays
cp /repo/Cargo.lock bx/Cargo.lock
(cd bx && CARGO_TARGET_DIR=../build/bx-target cargo build --release --offline --quiet --bin bx) || exit 1
verus --version >/dev/null || exit 1
cargo kani --version >/dev/null || exit 1
echo setup ok

use super::{DatumDefinitionCollection, DatumId, NativeDatumDetails};
use crate::record::definition::builder::native::variant::{basic, simple, append_data};
use crate::record::type_resolver::TypeInfo;

const MAXV: usize = 1 << 12;

fn any_align() -> usize {
    let k: u8 = kani::any();
    kani::assume(k <= 4);
    1usize << k
}

fn mk(defs: &mut DatumDefinitionCollection<NativeDatumDetails>, offset: usize, size: usize, align: usize) -> DatumId {
    defs.push(String::new(), NativeDatumDetails { offset, type_info: TypeInfo { name: String::new(), size, align }, allow_uninit: false })
}

fn wf_list(data: &[DatumId], defs: &DatumDefinitionCollection<NativeDatumDetails>) -> bool {
    // aligned, and (all data, incl. ZST) in address order, non overlapping
    let mut caret = 0usize;
    let mut ok = true;
    for &d in data {
        let dd = defs.get(d).unwrap().details();
        if dd.offset() % dd.type_align() != 0 { ok = false; }
        if dd.offset() < caret { ok = false; }
        caret = dd.offset() + dd.size();
    }
    ok
}

fn disjoint_nonzst(data: &[DatumId], defs: &DatumDefinitionCollection<NativeDatumDetails>) -> bool {
    let mut ok = true;
    for i in 0..data.len() {
        for j in (i+1)..data.len() {
            let a = defs.get(data[i]).unwrap().details();
            let b = defs.get(data[j]).unwrap().details();
            if a.size() > 0 && b.size() > 0 {
                if !(a.offset() + a.size() <= b.offset() || b.offset() + b.size() <= a.offset()) { ok = false; }
            }
        }
    }
    ok
}

fn setup<const N: usize, const M: usize>(allow_zst: bool) -> (DatumDefinitionCollection<NativeDatumDetails>, Vec<DatumId>, Vec<DatumId>) {
    let mut defs = DatumDefinitionCollection::default();
    let mut data = Vec::new();
    for _ in 0..N {
        let off: usize = kani::any();
        let size: usize = kani::any();
        kani::assume(off < MAXV && size < MAXV);
        if !allow_zst { kani::assume(size > 0); }
        let id = mk(&mut defs, off, size, any_align());
        data.push(id);
    }
    kani::assume(wf_list(&data, &defs));
    let mut add = Vec::new();
    for _ in 0..M {
        let size: usize = kani::any();
        kani::assume(size < MAXV);
        if !allow_zst { kani::assume(size > 0); }
        let id = mk(&mut defs, usize::MAX, size, any_align());
        add.push(id);
    }
    (defs, data, add)
}

#[kani::proof]
#[kani::unwind(6)]
fn basic_2_1() {
    let (mut defs, data, add) = setup::<2, 1>(false);
    let out = basic(data, add, Vec::new(), &mut defs);
    assert!(out.len() == 3);
    assert!(wf_list(&out, &defs));
    assert!(disjoint_nonzst(&out, &defs));
}

#[kani::proof]
#[kani::unwind(6)]
fn simple_2_1() {
    let (mut defs, data, add) = setup::<2, 1>(false);
    let out = simple(data, add, Vec::new(), &mut defs);
    assert!(out.len() == 3);
    assert!(wf_list(&out, &defs));
    assert!(disjoint_nonzst(&out, &defs));
}

#[kani::proof]
#[kani::unwind(6)]
fn append_2_1() {
    let (mut defs, data, add) = setup::<2, 1>(false);
    let out = append_data(data, add, Vec::new(), &mut defs);
    assert!(out.len() == 3);
    assert!(wf_list(&out, &defs));
    assert!(disjoint_nonzst(&out, &defs));
}

mod conv {
    use crate::record::definition::builder::generic::{GenericRecordDefinitionBuilder, variant::append_data};
    use crate::record::definition::convert::convert_record_definition;
    use crate::record::definition::DatumId;

    fn fmt_stub(_a: std::fmt::Arguments<'_>) -> String { String::new() }

    #[kani::proof]
    #[kani::unwind(5)]
    #[kani::stub(alloc::fmt::format, fmt_stub)]
    fn generic_builder_small() {
        let mut b = GenericRecordDefinitionBuilder::<u8>::new();
        let n0: bool = kani::any();
        let id0 = b.add_datum(if n0 { "a" } else { "b" }, 1).unwrap();
        let r1 = b.add_datum("a", 2);
        assert!(r1.is_err() == n0);
        let v0 = b.close_record_variant_with(append_data);
        let rm: bool = kani::any();
        if rm { b.remove_datum(id0).unwrap(); assert!(b.remove_datum(id0).is_err()); }
        let v1 = b.close_record_variant_with(append_data);
        assert!((v0 == v1) == !rm);
    }

    #[kani::proof]
    #[kani::unwind(5)]
    #[kani::stub(alloc::fmt::format, fmt_stub)]
    fn convert_small() {
        let mut b = GenericRecordDefinitionBuilder::<u8>::new();
        let id0 = b.add_datum("a", 1).unwrap();
        let _id1 = b.add_datum("b", 2).unwrap();
        b.close_record_variant_with(append_data);
        b.remove_datum(id0).unwrap();
        b.add_datum("c", 3).unwrap();
        b.close_record_variant_with(append_data);
        let def = b.build();
        let mut t = GenericRecordDefinitionBuilder::<u8>::new();
        let m = convert_record_definition(&def,
            |t: &mut GenericRecordDefinitionBuilder<u8>, d| t.add_datum(d.name(), *d.details()),
            |t, id: DatumId| t.remove_datum(id),
            |t| t.close_record_variant_with(append_data),
            &mut t).unwrap();
        assert!(m.len() == 2);
    }
}

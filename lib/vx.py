"""vx -- mechanical extractor: real function text of /repo  ->  Verus obligation file.

A *template* (contracts/<unit>.rs.tpl) is ordinary Verus text (spec functions, lemmas, trait and
impl headers carrying contracts) in which directive blocks are replaced by items copied
byte-for-byte from /repo, with contract text spliced in at structurally determined places and the
documented rewrite rules R1..R8 (DESIGN.md 3.2) applied.  No other change is made to the copied
text; the line map lets diagnostics be reported against /repo lines.

Directive block syntax (all directive lines start with `//@`):

  //@fn <repo-relative file> :: <selector>          selector: `fn f` | `impl <header> :: fn f`
  //@ ret <name>                                     R4: `-> T` becomes `-> (<name>: T)`
  //@ vis <text>                                     replace visibility qualifier (e.g. `pub`)
  //@ nobody                                         copy the signature only and end with `;` (trait decl)
  //@ attr <text>                                    emit an attribute line before the fn
  //@ requires / ensures / decreases                 following raw lines = clause text
  //@ loop <k> [iter=<name>]                         following raw lines = invariant/decreases text of loop k
  //@ closure <k> [params=<text>] [ret=<text>]       following raw lines = requires/ensures text of closure k
  //@ hint <anchor>                                  following raw lines = proof text put at anchor
  //@ drop-stmt <ident>#<n>                          (not used unless stated in the template)
  //@end

  //@struct <file> :: <selector>                     copies a struct/enum, fields made pub, attributes dropped
  //@end

Anchors: fn.start | fn.end | loop<k>.start | loop<k>.end | loop<k>.before | loop<k>.after |
         before <ident>#<n> | after <ident>#<n>      (n-th occurrence of the identifier in the fn)
"""
import os
import re
import hashlib
from rustlex import lex, match_delims, LexError


class Inconclusive(Exception):
    """lost anchor / construct the extractor does not accept: exit 2, never an alarm"""


# ----------------------------------------------------------------------------------------------
class Source:
    def __init__(self, root, rel):
        self.rel = rel
        self.path = os.path.join(root, rel)
        try:
            self.text = open(self.path).read()
        except OSError as e:
            raise Inconclusive('cannot read %s: %s' % (self.path, e))
        try:
            self.toks = lex(self.text)
            self.match = match_delims(self.toks)
        except LexError as e:
            raise Inconclusive('cannot lex %s: %s' % (rel, e))
        # line starts
        self.lines = [0]
        for m in re.finditer('\n', self.text):
            self.lines.append(m.end())

    def line_of(self, pos):
        import bisect
        return bisect.bisect_right(self.lines, pos)


def _norm(s):
    return re.sub(r'\s+', '', s)


def _items(src, lo, hi):
    """yield (kind, name_or_header, kw_index, body_open_index_or_None, end_index) for items whose
    keyword token sits at delimiter depth 0 inside token range [lo, hi)."""
    toks, match = src.toks, src.match
    k = lo
    while k < hi:
        t = toks[k]
        if t.kind == 'open':
            k = match[k] + 1
            continue
        if t.kind == 'ident' and t.text in ('fn', 'struct', 'enum', 'trait', 'impl', 'mod'):
            # `impl` inside a type position (impl Trait) only occurs inside fn signatures, which we
            # skip as part of the fn item.
            j = k + 1
            body = None
            while j < hi:
                tj = toks[j]
                if tj.kind == 'open' and tj.text == '{':
                    body = j
                    break
                if tj.kind == 'open':
                    j = match[j] + 1
                    continue
                if tj.kind == 'punct' and tj.text == ';':
                    break
                j += 1
            end = match[body] if body is not None else j
            if t.text == 'impl':
                name = _norm(src.text[toks[k].end:toks[body].start]) if body is not None else ''
            else:
                name = toks[k + 1].text if k + 1 < hi else ''
            yield (t.text, name, k, body, end)
            k = end + 1
            continue
        k += 1


def find_item(src, selector):
    """selector steps separated by `::` (with surrounding spaces)."""
    steps = [s.strip() for s in re.split(r'\s+::\s+', selector.strip())]
    lo, hi = 0, len(src.toks)
    found = None
    for step in steps:
        mm = re.match(r'^(fn|struct|enum|trait|impl|mod)\b(.*)$', step)
        if not mm:
            raise Inconclusive('bad selector step `%s`' % step)
        kind, rest = mm.group(1), mm.group(2)
        want = _norm(rest)
        # impl headers: ignore a leading generics-less difference such as `impl<D>` vs `impl <D>`
        cands = [it for it in _items(src, lo, hi) if it[0] == kind and it[1] == want]
        if len(cands) != 1:
            raise Inconclusive('lost anchor: %s :: `%s` matches %d items (step `%s`)'
                               % (src.rel, selector, len(cands), step))
        found = cands[0]
        if found[3] is not None:
            lo, hi = found[3] + 1, found[4]
    return found


_quals = ('pub', 'unsafe', 'const', 'async', 'extern', 'default')


def item_start(src, kw):
    """index of first token of the item (visibility / qualifiers), attributes excluded."""
    toks = src.toks
    k = kw
    while k > 0:
        p = toks[k - 1]
        if p.kind == 'ident' and p.text in _quals:
            k -= 1
            continue
        if p.kind == 'close' and p.text == ')' and k - 1 in src.match:
            o = src.match[k - 1]
            if o > 0 and toks[o - 1].kind == 'ident' and toks[o - 1].text == 'pub':
                k = o - 1
                continue
        if p.kind == 'lit' and k - 2 >= 0 and toks[k - 2].text == 'extern':
            k -= 2
            continue
        break
    return k


# ----------------------------------------------------------------------------------------------
class Edits:
    def __init__(self):
        self.e = []   # (pos, del_len, text, order)

    def ins(self, pos, text, prio=0):
        self.e.append((pos, 0, text, prio, len(self.e)))

    def rep(self, a, b, text):
        self.e.append((a, b - a, text, 0, len(self.e)))


def apply_edits(src, a, b, edits):
    """returns (text, linemap) for original text[a:b] with edits applied.  linemap: list of
    (output_line_index(0-based within text), repo_line) for lines that start in verbatim text."""
    ed = sorted(edits.e, key=lambda x: (x[0], 0 if x[1] == 0 else 1, x[3], x[4]))
    out = []
    segs = []   # (is_verbatim, text, orig_pos)
    pos = a
    for (p, dl, txt, _, _) in ed:
        if p < pos:
            if True:
                raise Inconclusive('overlapping rewrites at %s:%d' % (src.rel, src.line_of(p)))
        if p > b:
            raise Inconclusive('edit outside item')
        if p > pos:
            segs.append((True, src.text[pos:p], pos))
        segs.append((False, txt, p))
        pos = p + dl
    if pos < b:
        segs.append((True, src.text[pos:b], pos))
    text = ''.join(s[1] for s in segs)
    linemap = {}
    outline = 0
    for (verb, s, p) in segs:
        if verb:
            # every newline inside a verbatim segment starts a line that maps to the repo
            off = 0
            for m in re.finditer('\n', s):
                outline += 1
                linemap[outline] = src.line_of(p + m.end())
        else:
            outline += s.count('\n')
    linemap[0] = src.line_of(a)
    return text, linemap


# ----------------------------------------------------------------------------------------------
class FnSpec:
    def __init__(self):
        self.ret = None
        self.vis = None
        self.nobody = False
        self.attrs = []
        self.requires = ''
        self.ensures = ''
        self.decreases = ''
        self.loops = {}      # k -> (iter, text)
        self.closures = {}   # k -> dict(params, ret, text)
        self.hints = []      # (anchor, text)
        self.rename = None
        self.noauto = False
        self.sig_only = False
        self.panic_diverges = False


def _is_closure_start(toks, k):
    t = toks[k]
    if t.kind != 'punct' or t.text not in ('|', '||'):
        return False
    if k == 0:
        return True
    p = toks[k - 1]
    if p.kind == 'open':
        return True
    if p.kind == 'punct' and p.text in (',', '=', '=>', ';', '&&', '||', '!', ':', '->'):
        # `||` preceded by `||`?  not in this code base
        return True
    if p.kind == 'ident' and p.text in ('move', 'return', 'else', 'in'):
        return True
    return False


def _expr_end(src, k, hi):
    """index one past the last token of the expression starting at k (closure body without braces):
    stops at `,` `;` or an unmatched close at depth 0."""
    toks, match = src.toks, src.match
    j = k
    while j < hi:
        t = toks[j]
        if t.kind == 'open':
            j = match[j] + 1
            continue
        if t.kind == 'close':
            return j
        if t.kind == 'punct' and t.text in (',', ';'):
            return j
        j += 1
    return j


def find_loops(src, lo, hi):
    """[(kw_idx, start_idx(label incl.), in_idx or None, body_open, body_close)] in source order"""
    toks, match = src.toks, src.match
    res = []
    for k in range(lo, hi):
        t = toks[k]
        if t.kind == 'ident' and t.text in ('for', 'while', 'loop'):
            if t.text == 'for' and toks[k + 1].text == '<':
                continue
            j = k + 1
            in_idx = None
            while j < hi:
                tj = toks[j]
                if tj.kind == 'open' and tj.text == '{':
                    break
                if tj.kind == 'open':
                    j = match[j] + 1
                    continue
                if t.text == 'for' and in_idx is None and tj.kind == 'ident' and tj.text == 'in':
                    in_idx = j
                j += 1
            if j >= hi:
                raise Inconclusive('loop without body at %s:%d' % (src.rel, src.line_of(t.start)))
            start = k
            if k >= 2 and toks[k - 1].text == ':' and toks[k - 2].kind == 'lifetime':
                start = k - 2
            res.append((k, start, in_idx, j, match[j]))
    return res


def find_closures(src, lo, hi):
    """[(bar_idx, params_close_idx, body_first, body_end_exclusive, is_block)] in source order"""
    toks, match = src.toks, src.match
    res = []
    k = lo
    while k < hi:
        if _is_closure_start(toks, k):
            if toks[k].text == '||':
                pc = k
            else:
                j = k + 1
                while j < hi and not (toks[j].kind == 'punct' and toks[j].text == '|'):
                    if toks[j].kind == 'open':
                        j = match[j]
                    j += 1
                pc = j
            bf = pc + 1
            # optional `-> T` before a block body
            if toks[bf].kind == 'punct' and toks[bf].text == '->':
                j = bf
                while not (toks[j].kind == 'open' and toks[j].text == '{'):
                    j += 1
                res.append((k, pc, j, match[j] + 1, True))
            elif toks[bf].kind == 'open' and toks[bf].text == '{':
                res.append((k, pc, bf, match[bf] + 1, True))
            else:
                res.append((k, pc, bf, _expr_end(src, bf, hi), False))
            k = pc + 1
            continue
        k += 1
    return res


def _stmt_start(src, k, lo):
    """token index of the first token of the statement containing token k."""
    toks, match = src.toks, src.match
    j = k - 1
    while j >= lo:
        t = toks[j]
        if t.kind == 'close':
            if t.text == '}':
                # a block that ends a statement (if/while/for/match/loop/unsafe blocks) -- or a
                # struct literal / closure body inside our statement.  Treat `}` followed by
                # something that continues an expression as inside.
                nxt = toks[j + 1]
                if not (nxt.kind == 'punct' and nxt.text in ('.', '?', ',', ')', ';')) and \
                   not (nxt.kind == 'ident' and nxt.text == 'else'):
                    return j + 1
            j = match[j] - 1
            continue
        if t.kind == 'open':
            if t.text == '{':
                return j + 1
            # inside parens/brackets: the statement is the enclosing one
            j -= 1
            continue
        if t.kind == 'punct' and t.text == ';':
            return j + 1
        j -= 1
    return lo


def _stmt_end(src, k, hi):
    """byte position just after the statement containing token k."""
    toks, match = src.toks, src.match
    # climb out of parens/brackets first
    j = k
    while j < hi:
        t = toks[j]
        if t.kind == 'open':
            j = match[j]
            if t.text == '{':
                nxt = toks[j + 1] if j + 1 < len(toks) else None
                if nxt is not None and ((nxt.kind == 'ident' and nxt.text == 'else') or
                                        (nxt.kind == 'punct' and nxt.text in ('.', '?'))):
                    j += 1
                    continue
                if nxt is not None and nxt.kind == 'punct' and nxt.text == ';':
                    return toks[j + 1].end
                if nxt is not None and nxt.kind == 'close' and nxt.text != '}':
                    j += 1
                    continue
                if nxt is not None and nxt.kind == 'punct' and nxt.text == ',':
                    j += 1
                    continue
                return toks[j].end
            j += 1
            continue
        if t.kind == 'close':
            if t.text == '}':
                return toks[j - 1].end
            j += 1
            continue
        if t.kind == 'punct' and t.text == ';':
            return t.end
        j += 1
    raise Inconclusive('statement end not found')


def extract_fn(src, selector, spec):
    kind, name, kw, body, end = find_item(src, selector)
    if kind != 'fn':
        raise Inconclusive('%s is not a fn' % selector)
    toks, match = src.toks, src.match
    first = item_start(src, kw)
    ed = Edits()
    a = toks[first].start
    if spec.vis is not None:
        ed.rep(toks[first].start, toks[kw].start, spec.vis + (' ' if spec.vis else ''))
    if spec.rename:
        ed.rep(toks[kw + 1].start, toks[kw + 1].end, spec.rename)
    sig_end = body if body is not None else end   # token index of `{` or `;`
    # R4: name the return value
    if spec.ret:
        arrow = None
        j = kw
        while j < sig_end:
            if toks[j].kind == 'open':
                j = match[j] + 1
                continue
            if toks[j].kind == 'punct' and toks[j].text == '->':
                arrow = j
                break
            j += 1
        if arrow is None:
            raise Inconclusive('%s: no return type to name' % selector)
        j = arrow + 1
        while j < sig_end and not (toks[j].kind == 'ident' and toks[j].text == 'where'):
            if toks[j].kind == 'open':
                j = match[j]
            j += 1
        ed.ins(toks[arrow + 1].start, '(%s: ' % spec.ret)
        ed.ins(toks[j - 1].end, ')')
    contract = ''
    for kwd, txt in (('requires', spec.requires), ('ensures', spec.ensures),
                     ('decreases', spec.decreases)):
        if txt.strip():
            contract += '\n    %s\n%s' % (kwd, txt.rstrip('\n'))
            last = contract.rstrip().split('\n')[-1]
            if not re.sub(r'//.*$', '', last).rstrip().endswith(','):
                contract += '\n,'
    if body is None or spec.nobody:
        b = toks[sig_end].start
        text, lm = apply_edits(src, a, b, _with(ed, b, contract + '\n;' if contract else ';'))
        return text, lm, a, toks[end].end
    if contract:
        ed.ins(toks[body].start, contract + '\n', prio=-1)
    if spec.sig_only:
        ed.rep(toks[body].start, toks[end].end, '{ unimplemented!() }')
        text, lm = apply_edits(src, a, toks[end].end, ed)
        return text, lm, a, toks[end].end
    lo, hi = body + 1, end
    b = toks[end].end

    # ---- closures (R1 on params, R2, annotations)
    closures = find_closures(src, lo, hi)
    for n, (bar, pc, bf, be, is_block) in enumerate(closures, 1):
        ann = spec.closures.get(n)
        body_txt = src.text[toks[bf].start:toks[be - 1].end]
        pre_let = ''
        # R1: reference patterns in closure parameters
        if toks[bar].text == '|':
            ptoks = toks[bar + 1:pc]
            if len(ptoks) >= 2 and ptoks[0].text == '&' and ptoks[1].kind == 'ident' and \
               (len(ptoks) == 2 or ptoks[2].text == ':'):
                nm = ptoks[1].text
                if not (ann and ann.get('params') is not None):
                    ed.rep(ptoks[0].start, ptoks[1].end, nm + '__r')
                pre_let = ' let %s = *%s__r;' % (nm, nm)
        if ann and ann.get('params') is not None:
            ed.rep(toks[bar].start, toks[pc].end, '|%s|' % ann['params'])
        clause = ''
        if ann and ann.get('ret'):
            clause += ' -> %s' % ann['ret']
        # R2: a closure whose whole body is `panic!(..)` must be unreachable
        is_panic = (toks[bf].kind == 'ident' and toks[bf].text == 'panic' and
                    toks[bf + 1].text == '!' and match.get(bf + 2) == be - 1)
        if is_panic and not (ann and ann.get('text', '').strip()):
            clause += ' requires false'
        if ann and ann.get('text', '').strip():
            clause += '\n' + ann['text'].rstrip('\n') + '\n'
        if clause or pre_let:
            ed.ins(toks[pc].end, clause, prio=1)
            if is_block:
                if pre_let:
                    ed.ins(toks[bf].end, pre_let)
            else:
                ed.ins(toks[bf].start, ' {' + pre_let + ' ', prio=2)
                ed.ins(toks[be - 1].end, ' }', prio=-2)
    for n in spec.closures:
        if n > len(closures):
            raise Inconclusive('lost anchor: %s has %d closures, spec names closure %d'
                               % (selector, len(closures), n))

    # ---- loops (R1 on for patterns, R3)
    loops = find_loops(src, lo, hi)
    for n, (lk, lstart, in_idx, bo, bc) in enumerate(loops, 1):
        ann = spec.loops.get(n)
        if toks[lk].text == 'for':
            if in_idx is None:
                raise Inconclusive('for without in')
            ptoks = toks[lk + 1:in_idx]
            if len(ptoks) == 2 and ptoks[0].text == '&' and ptoks[1].kind == 'ident':
                nm = ptoks[1].text
                ed.rep(ptoks[0].start, ptoks[1].end, nm + '__r')
                ed.ins(toks[bo].end, ' let %s = *%s__r;' % (nm, nm), prio=-5)
            if ann and ann[0]:
                ed.ins(toks[in_idx].end, ' %s:' % ann[0])
        if ann and ann[1].strip():
            ed.ins(toks[bo].start, '\n' + ann[1].rstrip('\n') + '\n', prio=-1)
    for n in spec.loops:
        if n > len(loops):
            raise Inconclusive('lost anchor: %s has %d loops, spec names loop %d'
                               % (selector, len(loops), n))

    # ---- R6 / R7
    if not spec.noauto:
        k = lo
        while k < hi:
            t = toks[k]
            if t.kind == 'ident' and t.text == 'format' and toks[k + 1].text == '!' and toks[k + 2].kind == 'open':
                ed.rep(t.start, toks[match[k + 2]].end, 'String::new()')
                k = match[k + 2] + 1
                continue
            # R10: `X.iter().cloned()` -> `vx_iter_cloned(&X)` (external_body wrapper whose body is
            # the original expression; assumed contract: yields the elements of X)
            if t.kind == 'ident' and toks[k + 1].text == '.' and toks[k + 2].text == 'iter' and \
               toks[k + 3].text == '(' and toks[k + 4].text == ')' and toks[k + 5].text == '.' and \
               toks[k + 6].text == 'cloned' and toks[k + 7].text == '(' and toks[k + 8].text == ')' and \
               not (toks[k - 1].kind == 'punct' and toks[k - 1].text in ('.', '::')):
                ed.rep(t.start, toks[k + 8].end, 'vx_iter_cloned(&%s)' % t.text)
                k += 9
                continue
            # R12: `X.clone().into_iter().any(` -> `vx_clone_into_iter_any(&X, ` (same idea as R11 for a
            # generic `IntoIterator + Clone` source)
            if t.kind == 'ident' and toks[k + 1].text == '.' and toks[k + 2].text == 'clone' and \
               toks[k + 3].text == '(' and toks[k + 4].text == ')' and toks[k + 5].text == '.' and \
               toks[k + 6].text == 'into_iter' and toks[k + 7].text == '(' and toks[k + 8].text == ')' and \
               toks[k + 9].text == '.' and toks[k + 10].text == 'any' and toks[k + 11].text == '(' and \
               not (toks[k - 1].kind == 'punct' and toks[k - 1].text in ('.', '::')):
                ed.rep(t.start, toks[k + 11].end, 'vx_clone_into_iter_any(&%s, ' % t.text)
                k += 12
                continue
            # R11: `X.iter().any(` -> `vx_iter_any(&X, ` (external_body wrapper, body = the original
            # expression; the predicate closure stays in the text and is verified)
            if t.kind == 'ident' and toks[k + 1].text == '.' and toks[k + 2].text == 'iter' and \
               toks[k + 3].text == '(' and toks[k + 4].text == ')' and toks[k + 5].text == '.' and \
               toks[k + 6].text == 'any' and toks[k + 7].text == '(' and \
               not (toks[k - 1].kind == 'punct' and toks[k - 1].text in ('.', '::')):
                ed.rep(t.start, toks[k + 7].end, 'vx_iter_any(&%s, ' % t.text)
                k += 8
                continue
            # R14 (only under the directive `//@ panic-diverges`): a `panic!(..)` statement becomes a call of
            # `vx_diverge()`, an external_body function returning `!` without precondition.  vstd gives
            # panic the specification `requires false` (= "must be unreachable"); for a function whose
            # *contract* is "rejects by panicking" the rejecting path must be allowed and the
            # postcondition then speaks about the returning paths only.
            if spec.panic_diverges and t.kind == 'ident' and t.text == 'panic' and toks[k + 1].text == '!' and toks[k + 2].kind == 'open' \
               and toks[k - 1].text in ('{', ';', '}'):
                c = match[k + 2]
                ed.rep(t.start, toks[c].end, 'vx_diverge()')
                k = c + 1
                continue
            # R13: `let &PAT = &EXPR;` -> `let PAT = EXPR;`  (Verus rejects reference patterns.  The
            # original compiles, so every binding of PAT is Copy - a non-Copy binding cannot be moved
            # out of a borrow - hence destructuring the place by value copies the same fields and
            # leaves EXPR usable, exactly as the borrowed form does.)
            if t.kind == 'ident' and t.text == 'let' and toks[k + 1].kind == 'punct' and toks[k + 1].text == '&' and \
               not (toks[k + 2].kind == 'ident' and toks[k + 2].text == 'mut'):
                j = k + 2
                while j < hi and not (toks[j].kind == 'punct' and toks[j].text in ('=', ';')):
                    if toks[j].kind == 'open':
                        j = match[j]
                    j += 1
                if j < hi and toks[j].text == '=' and toks[j + 1].kind == 'punct' and toks[j + 1].text == '&' and \
                   not (toks[j + 2].kind == 'ident' and toks[j + 2].text == 'mut'):
                    ed.rep(toks[k + 1].start, toks[k + 1].end, '')
                    ed.rep(toks[j + 1].start, toks[j + 1].end, '')
                    k += 2
                    continue
            if t.kind == 'ident' and t.text in ('write', 'writeln') and toks[k + 1].text == '!' and toks[k + 2].kind == 'open':
                c = match[k + 2]
                if toks[c + 1].text == '?' and toks[c + 2].text == ';':
                    ed.rep(t.start, toks[c + 2].end, '();')
                    k = c + 3
                    continue
                if toks[c + 1].kind == 'close' and toks[c + 1].text == '}':
                    # tail expression `write!(..)` of a function / block returning fmt::Result
                    ed.rep(t.start, toks[c].end, 'Ok(())')
                    k = c + 1
                    continue
                raise Inconclusive('%s: write! in a position rule R7 does not cover' % selector)
            k += 1

    # ---- hints
    for anchor, text in spec.hints:
        text = '\n' + text.rstrip('\n') + '\n'
        m = re.match(r'^loop(\d+)\.(start|end|before|after)$', anchor)
        if anchor == 'fn.start':
            ed.ins(toks[body].end, text, prio=5)
        elif anchor == 'fn.end':
            if toks[end - 1].kind == 'punct' and toks[end - 1].text == ';':
                # the body ends with a statement: the hint goes right before the closing brace
                ed.ins(toks[end].start, text, prio=5)
            elif toks[end - 1].kind == 'close' and toks[end - 1].text == '}':
                raise Inconclusive('%s: fn.end anchor needs a simple tail expression' % selector)
            else:
                s = _stmt_start(src, end - 1, lo)
                ed.ins(toks[s].start, text, prio=5)
        elif m:
            n = int(m.group(1))
            if n > len(loops):
                raise Inconclusive('lost anchor: %s loop %d' % (selector, n))
            lk, lstart, in_idx, bo, bc = loops[n - 1]
            pos = {'start': toks[bo].end, 'end': toks[bc].start,
                   'before': toks[lstart].start, 'after': toks[bc].end}[m.group(2)]
            ed.ins(pos, text, prio=5)
        else:
            m = re.match(r'^(before|after)\s+([A-Za-z_][A-Za-z0-9_]*)#(\d+)$', anchor)
            if not m:
                raise Inconclusive('bad anchor `%s`' % anchor)
            occ = [k for k in range(lo, hi) if toks[k].kind == 'ident' and toks[k].text == m.group(2)]
            n = int(m.group(3))
            if n > len(occ):
                raise Inconclusive('lost anchor: %s: `%s` occurs %d times, hint wants #%d'
                                   % (selector, m.group(2), len(occ), n))
            k = occ[n - 1]
            if m.group(1) == 'before':
                s = _stmt_start(src, k, lo)
                ed.ins(toks[s].start, text, prio=5)
            else:
                ed.ins(_stmt_end(src, k, hi), text, prio=5)
    text, lm = apply_edits(src, a, b, ed)
    return text, lm, a, b


def _with(ed, pos, text):
    ed.ins(pos, text)
    return ed


def extract_struct(src, selector):
    kind, name, kw, body, end = find_item(src, selector)
    if kind not in ('struct', 'enum'):
        raise Inconclusive('%s is not a struct/enum' % selector)
    toks, match = src.toks, src.match
    first = item_start(src, kw)
    ed = Edits()
    if toks[first].text != 'pub':
        ed.ins(toks[first].start, 'pub ')
    if body is None:
        # tuple or unit struct: `struct X(A, B);`
        o = kw + 2
        while toks[o].kind != 'open' and toks[o].text != ';':
            o += 1
        if toks[o].kind == 'open':
            c = match[o]
            starts = [o + 1]
            j = o + 1
            while j < c:
                if toks[j].kind == 'open':
                    j = match[j]
                elif toks[j].text == ',' and j + 1 < c:
                    starts.append(j + 1)
                j += 1
            for s in starts:
                if s < c and toks[s].text != 'pub':
                    if toks[s].text == '#':
                        raise Inconclusive('field attribute in %s' % selector)
                    ed.ins(toks[s].start, 'pub ')
            end_tok = c + 1
            while toks[end_tok].text != ';':
                end_tok += 1
        else:
            end_tok = o
        b = toks[end_tok].end
    else:
        if kind == 'struct':
            starts = [body + 1]
            j = body + 1
            while j < end:
                if toks[j].kind == 'open':
                    j = match[j]
                elif toks[j].text == ',' and j + 1 < end:
                    starts.append(j + 1)
                j += 1
            for s in starts:
                if s < end and toks[s].text != 'pub':
                    if toks[s].text == '#':
                        raise Inconclusive('field attribute in %s' % selector)
                    ed.ins(toks[s].start, 'pub ')
        b = toks[end].end
    a = toks[first].start
    text, lm = apply_edits(src, a, b, ed)
    return text, lm, a, b


# ----------------------------------------------------------------------------------------------
def find_method(src, type_name, fn_name):
    """(impl header text, selector) of `fn fn_name` in an inherent or trait impl for `type_name`"""
    res = []
    for (kind, name, kw, body, end) in _items(src, 0, len(src.toks)):
        if kind != 'impl' or body is None:
            continue
        if not re.search(r'(?<![A-Za-z0-9_])%s(?![A-Za-z0-9_])' % re.escape(type_name), name):
            continue
        for (k2, n2, kw2, b2, e2) in _items(src, body + 1, end):
            if k2 == 'fn' and n2 == fn_name:
                header = src.text[src.toks[kw].start:src.toks[body].start].strip()
                res.append((header, 'impl %s :: fn %s' % (' '.join(src.text[src.toks[kw].end:src.toks[body].start].split()), fn_name)))
    return res


def find_free_fn(src, fn_name):
    return [('', 'fn %s' % fn_name) for (kind, name, kw, body, end) in _items(src, 0, len(src.toks)) if kind == 'fn' and name == fn_name]


def render_extra(repo_root, rel, header, selector):
    """text of one function pulled in WITHOUT a contract (auto-extracted callee)"""
    src = Source(repo_root, rel)
    spec = FnSpec()
    text, lm, a, b = extract_fn(src, selector, spec)
    marker = '// from %s:%d  [%s]  (auto-extracted callee: no contract)' % (rel, src.line_of(a), selector)
    if header:
        return '%s {\n%s\n%s\n}\n' % (header, marker, text)
    return '%s\n%s\n' % (marker, text)


def render(template_path, repo_root):
    """returns dict(text, linemap {out_line(1-based): (file, line)}, functions [ {selector,file,
    line, sha256} ], drops)"""
    tpl = open(template_path).read().split('\n')
    out = []
    linemap = {}
    functions = []
    sources = {}
    i = 0

    def src_of(rel):
        if rel not in sources:
            sources[rel] = Source(repo_root, rel)
        return sources[rel]

    while i < len(tpl):
        line = tpl[i]
        m = re.match(r'^\s*//@(fn|struct)\s+(\S+)\s+::\s+(.*)$', line)
        if not m:
            if line.strip().startswith('//@'):
                raise Inconclusive('%s:%d: stray directive `%s`' % (template_path, i + 1, line.strip()))
            out.append(line)
            i += 1
            continue
        what, rel, selector = m.group(1), m.group(2), m.group(3).strip()
        spec = FnSpec()
        cur = None   # (kind, key)
        buf = []
        i += 1

        def flush():
            nonlocal buf, cur
            txt = '\n'.join(buf)
            if cur is None:
                if txt.strip():
                    raise Inconclusive('%s:%d: text outside a clause' % (template_path, i))
            elif cur[0] in ('requires', 'ensures', 'decreases'):
                setattr(spec, cur[0], txt)
            elif cur[0] == 'loop':
                spec.loops[cur[1]] = (cur[2], txt)
            elif cur[0] == 'closure':
                d = cur[2]; d['text'] = txt
                spec.closures[cur[1]] = d
            elif cur[0] == 'hint':
                spec.hints.append((cur[1], txt))
            buf = []
            cur = None

        while i < len(tpl):
            l = tpl[i]
            s = l.strip()
            if s.startswith('//@'):
                d = s[3:].strip()
                if d == 'end':
                    flush()
                    i += 1
                    break
                flush()
                head, _, rest = d.partition(' ')
                rest = rest.strip()
                if head == 'ret':
                    spec.ret = rest
                elif head == 'vis':
                    spec.vis = rest
                elif head == 'rename':
                    spec.rename = rest
                elif head == 'nobody':
                    spec.nobody = True
                elif head == 'noauto':
                    spec.noauto = True
                elif head == 'panic-diverges':
                    spec.panic_diverges = True
                elif head == 'sig-only':
                    # for assumed (external_body) functions: only the signature is copied, the
                    # body is replaced by `unimplemented!()` (it is not verified anyway)
                    spec.sig_only = True
                elif head == 'attr':
                    spec.attrs.append(rest)
                elif head in ('requires', 'ensures', 'decreases'):
                    cur = (head,)
                elif head == 'loop':
                    mm = re.match(r'^(\d+)(?:\s+iter=(\w+))?$', rest)
                    if not mm:
                        raise Inconclusive('bad loop directive `%s`' % d)
                    cur = ('loop', int(mm.group(1)), mm.group(2))
                elif head == 'closure':
                    mm = re.match(r'^(\d+)(.*)$', rest)
                    dd = {}
                    for km in re.finditer(r'(params|ret)=\{(.*?)\}(?=\s+\w+=\{|\s*$)', mm.group(2)):
                        dd[km.group(1)] = km.group(2)
                    cur = ('closure', int(mm.group(1)), dd)
                elif head == 'hint':
                    cur = ('hint', rest)
                else:
                    raise Inconclusive('%s:%d: unknown directive `%s`' % (template_path, i + 1, d))
                i += 1
                continue
            buf.append(l)
            i += 1
        else:
            raise Inconclusive('%s: unterminated directive block for %s' % (template_path, selector))
        src = src_of(rel)
        if what == 'fn':
            text, lm, a, b = extract_fn(src, selector, spec)
        else:
            text, lm, a, b = extract_struct(src, selector)
        base = len(out)
        out.append('// from %s:%d  [%s]' % (rel, src.line_of(a), selector))
        for at in spec.attrs:
            out.append(at)
        base2 = len(out)
        tl = text.split('\n')
        for k, l in enumerate(tl):
            out.append(l)
            if k in lm:
                linemap[base2 + k + 1] = (rel, lm[k])
        functions.append({'kind': what, 'selector': selector, 'file': rel, 'line': src.line_of(a),
                          'sha256': hashlib.sha256(src.text[a:b].encode()).hexdigest()[:16]})
    return {'text': '\n'.join(out), 'linemap': linemap, 'functions': functions}


if __name__ == '__main__':
    import sys
    r = render(sys.argv[1], sys.argv[2] if len(sys.argv) > 2 else '/repo')
    sys.stdout.write(r['text'])

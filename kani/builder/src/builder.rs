//! C12 (B5): the name lookup of the generic builder and the duplicate-name rejection of
//! `add_datum` -- the one part of the builder Verus cannot take (filter / chain / filter_map /
//! find).  One operation per harness on a small prepared state; names from {"a","b","c","d"}.
//! BOUNDED: <= 2 data in the last variant, <= 1 pending removal, <= 1 pending addition.
use truc::record::definition::{
    builder::generic::{variant::append_data, GenericRecordDefinitionBuilder},
    DatumId,
};

/// error texts are not part of any property; formatting them dominates CBMC's cost
pub fn fmt_stub(_args: std::fmt::Arguments<'_>) -> String {
    String::new()
}

struct Prepared {
    b: GenericRecordDefinitionBuilder<()>,
    a: DatumId,
    bb: DatumId,
    c: Option<DatumId>,
    rm_a: bool,
}

/// last variant [a, b]; optionally `a` pending removal; optionally `c` pending addition
fn prepare() -> Prepared {
    let mut b = GenericRecordDefinitionBuilder::<()>::new();
    let a = b.add_datum("a", ()).unwrap();
    let bb = b.add_datum("b", ()).unwrap();
    b.close_record_variant_with(append_data);
    let rm_a: bool = kani::any();
    if rm_a {
        b.remove_datum(a).unwrap();
    }
    let add_c: bool = kani::any();
    let c = if add_c { Some(b.add_datum("c", ()).unwrap()) } else { None };
    Prepared { b, a, bb, c, rm_a }
}

fn pick() -> (u8, &'static str) {
    let which: u8 = kani::any();
    kani::assume(which < 4);
    (which, match which { 0 => "a", 1 => "b", 2 => "c", _ => "d" })
}

/// does the variant being built carry that name? (the specification)
fn expected(p: &Prepared, which: u8) -> bool {
    match which { 0 => !p.rm_a, 1 => true, 2 => p.c.is_some(), _ => false }
}

#[kani::proof]
#[kani::unwind(6)]
#[kani::stub(alloc::fmt::format, fmt_stub)]
pub fn c12_lookup_by_name_in_current_variant() {
    let p = prepare();
    let (which, name) = pick();
    let found = p.b.get_current_datum_definition_by_name(name);
    assert!(found.is_some() == expected(&p, which), "lookup disagrees with last - removed + added");
    if let Some(d) = found {
        let want = match which { 0 => p.a, 1 => p.bb, _ => p.c.unwrap() };
        assert!(d.id() == want, "lookup returned another datum");
    }
    kani::cover!(which == 0 && p.rm_a, "reachable: name of a datum pending removal");
    kani::cover!(which == 2 && p.c.is_some(), "reachable: name of a pending addition");
}

#[kani::proof]
#[kani::unwind(6)]
#[kani::stub(alloc::fmt::format, fmt_stub)]
pub fn c12_current_data_is_last_minus_removed_plus_added() {
    let p = prepare();
    let mut it = p.b.get_current_data();
    if !p.rm_a {
        assert!(it.next() == Some(p.a));
    }
    assert!(it.next() == Some(p.bb));
    if let Some(c) = p.c {
        assert!(it.next() == Some(c));
    }
    assert!(it.next().is_none());
}

#[kani::proof]
#[kani::unwind(6)]
#[kani::stub(alloc::fmt::format, fmt_stub)]
pub fn c12_add_rejects_exactly_clashing_names_and_changes_nothing() {
    let mut p = prepare();
    let (which, name) = pick();
    let clash = expected(&p, which);
    let r = p.b.add_datum(name, ());
    assert!(r.is_err() == clash, "add_datum must fail exactly when the name is carried by the variant being built");
    // observable state after a rejected request: unchanged
    let mut it = p.b.get_current_data();
    if !p.rm_a {
        assert!(it.next() == Some(p.a));
    }
    assert!(it.next() == Some(p.bb));
    if let Some(c) = p.c {
        assert!(it.next() == Some(c));
    }
    match r {
        Err(_) => assert!(it.next().is_none(), "rejected request changed the current data"),
        Ok(id) => {
            assert!(it.next() == Some(id));
            assert!(it.next().is_none());
            // ids are never reused
            assert!(id != p.a && id != p.bb && Some(id) != p.c);
        }
    }
    kani::cover!(which == 0 && p.rm_a && r.is_ok(), "reachable: re-using the name of a datum pending removal is accepted");
}

#[kani::proof]
#[kani::unwind(6)]
#[kani::stub(alloc::fmt::format, fmt_stub)]
pub fn c12_variant_lookup_by_name() {
    let mut p = prepare();
    let v0 = p.b.close_record_variant_with(append_data);
    let (which, name) = pick();
    // variant 0 is [a, b] whatever happened later
    let first = p.b.get_variant(0usize.into()).unwrap().id();
    let f0 = p.b.get_variant_datum_definition_by_name(first, name);
    assert!(f0.is_some() == (which < 2));
    let f1 = p.b.get_variant_datum_definition_by_name(v0, name);
    assert!(f1.is_some() == expected(&p, which));
}

use std::{env, fs, path::PathBuf};
use truc::{
    generator::{config::GeneratorConfig, generate, fragment::{clone::CloneImplGenerator, FragmentGenerator}},
    record::{definition::builder::native::NativeRecordDefinitionBuilder, type_resolver::HostTypeResolver},
};
fn main() {
    let mut d = NativeRecordDefinitionBuilder::new(&HostTypeResolver);
    let a = d.add_datum_allow_uninit::<u32, _>("a").unwrap();
    let b = d.add_datum::<Box<u16>, _>("b").unwrap();
    let _c = d.add_datum_allow_uninit::<u8, _>("c").unwrap();
    d.close_record_variant();
    d.remove_datum(a).unwrap();
    d.remove_datum(b).unwrap();
    d.add_datum::<Box<u32>, _>("e").unwrap();
    d.add_datum_allow_uninit::<u16, _>("f").unwrap();
    d.close_record_variant();
    let def = d.build();
    let out = PathBuf::from(env::var("OUT_DIR").unwrap());
    fs::write(out.join("gen.rs"), generate(&def, &GeneratorConfig::default_with_custom_generators([Box::new(CloneImplGenerator) as Box<dyn FragmentGenerator>]))).unwrap();
    fs::write("/tmp/gen_sample.rs", generate(&def, &GeneratorConfig::default_with_custom_generators([Box::new(CloneImplGenerator) as Box<dyn FragmentGenerator>]))).unwrap();
}

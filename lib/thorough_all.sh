#!/bin/sh
# run every claimed check in the thorough tier on the current (clean) tree; one line per property
cd /verif || exit 2
git -C /repo status --short | grep -q . && { echo "/repo has uncommitted changes"; exit 2; }
rc=0
for p in $(python3 -c "import json;print(' '.join(c['property_id'] for c in json.load(open('MANIFEST.json'))['checks']))"); do
  t0=$(date +%s)
  ./check $p --tier thorough > build/thorough_$p.log 2>&1; r=$?
  echo "$p rc=$r $(( $(date +%s) - t0 ))s $(grep -c INCONCLUSIVE build/thorough_$p.log) inconclusive lines"
  [ $r -ne 0 ] && rc=1
done
exit $rc

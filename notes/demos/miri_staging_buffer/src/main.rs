// what every generated constructor does: typed store into a bare (align 1) staging buffer
use truc_runtime::data::RecordMaybeUninit;
#[repr(align(8))]
struct Rec { data: RecordMaybeUninit<13> }
fn new(a: u64, b: u32) -> Rec {
    let mut data = RecordMaybeUninit::new();
    unsafe { data.write(0, a); }
    unsafe { data.write(8, b); }
    Rec { data }
}
fn main() {
    let pad = [0u8; 3];
    let r = new(7, 9);
    assert_eq!(unsafe { *r.data.get::<u64>(0) }, 7);
    std::hint::black_box(pad);
}

// overwritten by ./check --replay

// Included by the cfg(kani) hook at the end of /repo/truc/src/record/definition/builder/native/variant/simple.rs.
//
// L7: leaves of the gap-filling strategy that Verus rejects (`break <expr>`, reference pattern).
//   select_best                  : returns one of its two candidates and terminates; loop bounded by the
//                                  operand width (64 shifts), unwinding assertions on, full usize domain => complete
//   select_start_or_end_of_gap   : the chosen placement stays inside the same gap, keeps the datum's size and
//                                  alignment, and gap_before + size + gap_after is unchanged.  BOUNDED: values < 2^16
//                                  (64-bit / and * by a symbolic alignment do not finish under CBMC)
//   compute_initial_gaps         : the gaps are exactly the holes in front of the listed data, each tagged with
//                                  the index of the datum that follows it.  BOUNDED: list <= 3
use super::*;
use crate::record::type_resolver::TypeInfo;

fn fitted(marker: usize) -> FittedDatum {
    FittedDatum { kind: FittedDatumKind::StartOfGap, gap_index: marker, gap_before: 0, gap_after: 0, datum_start: 0, datum_end: 0 }
}

#[kani::proof]
#[kani::unwind(66)]
pub fn l7_select_best_returns_one_candidate_and_terminates() {
    let first: usize = kani::any();
    let second: usize = kani::any();
    let r = select_best(first, || fitted(1), second, || fitted(2));
    assert!(r.gap_index == 1 || r.gap_index == 2, "L7: select_best invented a placement");
    // the documented rule: the value that is "more aligned" (more trailing zero bits) wins, first on ties
    let first_wins = first == 0 || (second != 0 && first.trailing_zeros() >= second.trailing_zeros());
    assert!((r.gap_index == 1) == first_wins, "L7: select_best does not pick the better aligned value");
}

#[kani::proof]
#[kani::unwind(20)]
pub fn l7_c01_c02_select_start_or_end_of_gap_stays_inside_the_gap() {
    let e: u8 = kani::any();
    kani::assume(e <= 4);
    let align = 1usize << e;
    let gap_start: usize = kani::any();
    let gap_before: usize = kani::any();
    let size: usize = kani::any();
    let gap_after: usize = kani::any();
    kani::assume(gap_start < (1 << 16) && gap_before < (1 << 16) && size < (1 << 16) && gap_after < (1 << 16));
    let datum_start = gap_start + gap_before;
    kani::assume(datum_start % align == 0);
    let datum_end = datum_start + size;
    let gap_end = datum_end + gap_after;
    let s = FittedDatum { kind: FittedDatumKind::StartOfGap, gap_index: 7, gap_before, gap_after, datum_start, datum_end };
    let r = select_start_or_end_of_gap(s, align);
    assert!(r.gap_index == 7, "L7: gap index changed");
    assert!(r.datum_end - r.datum_start == size, "L7: size changed");
    assert!(r.datum_start % align == 0, "C02: placement no longer aligned");
    assert!(r.datum_start >= gap_start && r.datum_end <= gap_end, "C01: placement left the gap");
    assert!(r.gap_before == r.datum_start - gap_start && r.gap_after == gap_end - r.datum_end, "L7: remaining gaps are not the exact remainders");
    match r.kind {
        FittedDatumKind::StartOfGap => assert!(r.datum_start == datum_start),
        FittedDatumKind::EndOfGap => assert!(r.datum_start > datum_start),
    }
    kani::cover!(r.kind == FittedDatumKind::EndOfGap, "reachable: end-of-gap placement chosen");
}

#[kani::proof]
#[kani::unwind(4)]
pub fn l7_c01_compute_initial_gaps_are_the_holes_n2() {
    gaps_are_the_holes(2);
}

/// thorough tier only (about 5 minutes)
#[kani::proof]
#[kani::unwind(5)]
pub fn l7_c01_compute_initial_gaps_are_the_holes_n3() {
    gaps_are_the_holes(3);
}

fn gaps_are_the_holes(max: usize) {
    let n: usize = kani::any();
    kani::assume(n <= max);
    let mut defs = DatumDefinitionCollection::<NativeDatumDetails>::default();
    let mut list = Vec::with_capacity(3);
    let mut cursor = 0usize;
    let mut offs = [0usize; 3];
    let mut sizes = [0usize; 3];
    let mut k = 0;
    while k < n {
        let gap: usize = kani::any();
        let size: usize = kani::any();
        kani::assume(gap < 64 && size < 64);
        offs[k] = cursor + gap;
        sizes[k] = size;
        let id = defs.push(String::new(), NativeDatumDetails::new(offs[k], TypeInfo { name: String::new(), size, align: 1 }, false));
        list.push(id);
        cursor = offs[k] + size;
        k += 1;
    }
    let gaps = compute_initial_gaps(&list, &defs);
    // every gap is a hole in front of the datum it names, and every hole is reported once, in order
    let mut g = 0;
    let mut prev_end = 0usize;
    let mut k = 0;
    while k < n {
        if offs[k] > prev_end {
            assert!(g < gaps.len(), "L7: a hole is missing from the gap list");
            assert!(gaps[g].start == prev_end && gaps[g].end == offs[k] && gaps[g].datum_index == k, "L7/C02: gap does not describe the hole in front of the datum that follows it");
            g += 1;
        }
        prev_end = offs[k] + sizes[k];
        k += 1;
    }
    assert!(g == gaps.len(), "L7: a gap that is not a hole");
    kani::cover!(n == max && g == max - 1, "reachable: holes in front of all but one datum");
}

// `./check --replay` writes Kani's counterexample (a unit test) into this file and runs it natively
// with `cargo kani playback`; it is empty otherwise.
#[cfg(test)]
mod playback_generated {
    use super::*;
    include!(concat!(env!("VERIF_KANI_DIR"), "/playback_simple.rs"));
}

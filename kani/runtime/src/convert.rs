//! C08 / C09 / C10: `try_convert_vec_in_place` / `convert_vec_in_place` of the real crate.
//!
//! The converter is a *specification converter*: it asserts what the property promises about the
//! way it is called (each element exactly once, in order, with mutable access to the most recent
//! output), records what it hands back, and chooses keep / abandon / modify-previous / fail from
//! symbolic inputs.  Bounded: vector length <= N (stated in every evidence file).
use std::panic::catch_unwind as real_cu;

use truc_runtime::convert::{convert_vec_in_place, try_convert_vec_in_place, VecElementConversionResult};

/// `catch_unwind` makes the Kani compiler crash and Kani has no unwinding anyway: call the closure
/// and wrap in `Ok`.  Sound for non-panicking closures; the panic arm becomes unreachable (stated
/// as an unchecked clause of C09).
pub fn cu_stub<F: FnOnce() -> R + std::panic::UnwindSafe, R>(f: F) -> std::thread::Result<R> {
    Ok(f())
}

/// bound on the vector length: 4 (quick); the thorough tier compiles with VERIF_CONVERT_N=8
pub const N: usize = match option_env!("VERIF_CONVERT_N") {
    Some(s) => (s.as_bytes()[0] - b'0') as usize,
    None => 4,
};
pub const NEVER: usize = 99;

pub struct Ghost {
    pub len: usize,
    pub calls: usize,
    pub kept: usize,
    pub keep: [bool; N],
    pub touch_prev: [bool; N],
    pub fail_at: usize,
    pub errv: u8,
    /// for output slot j: which "output value id" currently lives there
    pub expect: [u8; N],
    /// drop counters: ids 0..N inputs, N..2N outputs produced for input i, 2N..3N replacement
    /// outputs written through `prev` while handling input i
    pub drops: [u8; 3 * N],
}

pub static mut G: Ghost = Ghost {
    len: 0, calls: 0, kept: 0, keep: [false; N], touch_prev: [false; N], fail_at: NEVER, errv: 0,
    expect: [0; N], drops: [0; 3 * N],
};

pub unsafe fn ghost_init(len: usize, fail_at: usize) {
    G.len = len;
    G.calls = 0;
    G.kept = 0;
    G.fail_at = fail_at;
    G.errv = kani::any();
    G.keep = kani::any();
    G.touch_prev = kani::any();
    G.expect = [0; N];
    G.drops = [0; 3 * N];
}

/// Element-type description for one harness family.
pub trait Elem {
    type T;
    type U;
    /// the i-th input value (symbolic payload where the type has one)
    fn mk_in(i: usize) -> Self::T;
    /// is `t` the i-th input?
    fn is_in(t: &Self::T, i: usize) -> bool;
    /// output value with id `id` (N..3N)
    fn mk_out(id: usize) -> Self::U;
    fn is_out(u: &Self::U, id: usize) -> bool;
    /// do values carry drop counters?
    const COUNTS_DROPS: bool;
}

pub fn spec_converter<E: Elem>(t: E::T, prev: Option<&mut E::U>) -> Result<VecElementConversionResult<E::U>, u8> {
    unsafe {
        let i = G.calls;
        G.calls += 1;
        // C08/C09: never called again after the end / after a failure
        assert!(i < G.len, "converter called more often than there are elements");
        assert!(G.fail_at == NEVER || i <= G.fail_at, "converter called again after it failed");
        // C08: each input element exactly once, in order
        assert!(E::is_in(&t, i), "converter did not receive the i-th element");
        match prev {
            None => assert!(G.kept == 0, "no previous output passed although one exists"),
            Some(p) => {
                assert!(G.kept > 0, "previous output passed before any was produced");
                assert!(E::is_out(p, G.expect[G.kept - 1] as usize), "previous output is not the most recent one");
                if G.touch_prev[i] {
                    // a converter that modifies the previous output
                    let id = 2 * N + i;
                    *p = E::mk_out(id);
                    G.expect[G.kept - 1] = id as u8;
                }
            }
        }
        if i == G.fail_at {
            // `t` is dropped here by the converter
            return Err(G.errv);
        }
        if G.keep[i] {
            let id = N + i;
            G.expect[G.kept] = id as u8;
            G.kept += 1;
            Ok(VecElementConversionResult::Converted(E::mk_out(id)))
        } else {
            Ok(VecElementConversionResult::Abandonned)
        }
    }
}

pub fn build_input<E: Elem>(len: usize) -> Vec<E::T> {
    let mut v = Vec::with_capacity(N);
    let mut i = 0;
    while i < len {
        v.push(E::mk_in(i));
        i += 1;
    }
    v
}

/// C08 postcondition
pub fn check_success<E: Elem>(len: usize, max: usize) {
    unsafe { ghost_init(len, NEVER) };
    let v = build_input::<E>(len);
    let cap = v.capacity();
    let ptr = v.as_ptr() as usize;
    let r = try_convert_vec_in_place::<E::T, E::U, _, u8>(v, spec_converter::<E>);
    unsafe {
        match r {
            Ok(out) => {
                assert!(G.calls == len, "converter not called once per element");
                assert!(out.len() == G.kept, "result length differs from the number of converted elements");
                let mut j = 0;
                while j < out.len() {
                    assert!(E::is_out(&out[j], G.expect[j] as usize), "result element differs from what the converter produced");
                    j += 1;
                }
                assert!(out.capacity() == cap, "capacity not preserved");
                assert!(out.as_ptr() as usize == ptr, "allocation not reused");
                kani::cover!(len == max && G.kept == 2, "reachable: two kept of max");
                kani::cover!(len == 0, "reachable: empty vector");
                if E::COUNTS_DROPS {
                    // nothing produced is dropped while the result is alive
                    let mut j = 0;
                    while j < G.kept {
                        assert!(G.drops[G.expect[j] as usize] == 0, "live output already dropped");
                        j += 1;
                    }
                    drop(out);
                    check_drop_counts(len);
                }
            }
            Err(_) => assert!(false, "Err although the converter never failed"),
        }
    }
}

/// every input and every produced output is dropped exactly once
pub unsafe fn check_drop_counts(len: usize) {
    let mut i = 0;
    while i < N {
        if i < len {
            assert!(G.drops[i] == 1, "input element not dropped exactly once");
        } else {
            assert!(G.drops[i] == 0, "phantom input dropped");
        }
        let produced = i < len && (G.fail_at == NEVER || i < G.fail_at) && G.keep[i];
        assert!(G.drops[N + i] == if produced { 1 } else { 0 }, "output not dropped exactly once");
        i += 1;
    }
}

/// C09 (error-return half)
pub fn check_failure<E: Elem>(len: usize, fail_at: usize) {
    unsafe { ghost_init(len, fail_at) };
    let v = build_input::<E>(len);
    let r = try_convert_vec_in_place::<E::T, E::U, _, u8>(v, spec_converter::<E>);
    unsafe {
        match r {
            Ok(_) => assert!(false, "Ok although the converter failed"),
            Err(e) => {
                assert!(e == G.errv, "caller did not receive the converter's error value");
                assert!(G.calls == fail_at + 1, "converter called again after the failure");
                kani::cover!(fail_at == 1 && G.kept == 1, "reachable: failure after one kept output");
                if E::COUNTS_DROPS {
                    check_drop_counts(len);
                    // replacement outputs written through `prev`
                    let mut i = 0;
                    while i < N {
                        let written = i < len && i <= fail_at && G.touch_prev[i] && replaced_possible(i);
                        assert!(G.drops[2 * N + i] == if written { 1 } else { 0 }, "replacement output not dropped exactly once");
                        i += 1;
                    }
                }
            }
        }
    }
}

/// was there a previous output when element i was handled?
unsafe fn replaced_possible(i: usize) -> bool {
    let mut k = 0;
    let mut any = false;
    while k < i {
        if G.keep[k] {
            any = true;
        }
        k += 1;
    }
    any
}

// ---------------------------------------------------------------------------------------------
// element families

pub struct PodU32;
static mut POD_IN: [u32; N] = [0; N];
static mut POD_OUT: [i32; 3 * N] = [0; 3 * N];
impl Elem for PodU32 {
    type T = u32;
    type U = i32;
    const COUNTS_DROPS: bool = false;
    fn mk_in(i: usize) -> u32 { unsafe { POD_IN[i] } }
    fn is_in(t: &u32, i: usize) -> bool { unsafe { *t == POD_IN[i] } }
    fn mk_out(id: usize) -> i32 { unsafe { POD_OUT[id] } }
    fn is_out(u: &i32, id: usize) -> bool { unsafe { *u == POD_OUT[id] } }
}
unsafe fn pod_init() {
    POD_IN = kani::any();
    POD_OUT = kani::any();
}

/// drop-counted one-byte tokens (T and U are different types of equal layout)
pub struct TokIn(u8);
pub struct TokOut(u8);
impl Drop for TokIn { fn drop(&mut self) { unsafe { G.drops[self.0 as usize] += 1; } } }
impl Drop for TokOut { fn drop(&mut self) { unsafe { G.drops[self.0 as usize] += 1; } } }
pub struct Tokens;
impl Elem for Tokens {
    type T = TokIn;
    type U = TokOut;
    const COUNTS_DROPS: bool = true;
    fn mk_in(i: usize) -> TokIn { TokIn(i as u8) }
    fn is_in(t: &TokIn, i: usize) -> bool { t.0 as usize == i }
    fn mk_out(id: usize) -> TokOut { TokOut(id as u8) }
    fn is_out(u: &TokOut, id: usize) -> bool { u.0 as usize == id }
}

/// owned heap values with drop counting
pub struct BoxIn(Box<u8>);
pub struct BoxOut(Box<u8>);
impl Drop for BoxIn { fn drop(&mut self) { unsafe { G.drops[*self.0 as usize] += 1; } } }
impl Drop for BoxOut { fn drop(&mut self) { unsafe { G.drops[*self.0 as usize] += 1; } } }
pub struct Boxes;
impl Elem for Boxes {
    type T = BoxIn;
    type U = BoxOut;
    const COUNTS_DROPS: bool = true;
    fn mk_in(i: usize) -> BoxIn { BoxIn(Box::new(i as u8)) }
    fn is_in(t: &BoxIn, i: usize) -> bool { *t.0 as usize == i }
    fn mk_out(id: usize) -> BoxOut { BoxOut(Box::new(id as u8)) }
    fn is_out(u: &BoxOut, id: usize) -> bool { *u.0 as usize == id }
}

/// zero-size elements
pub struct Units;
impl Elem for Units {
    type T = ();
    type U = ();
    const COUNTS_DROPS: bool = false;
    fn mk_in(_: usize) {}
    fn is_in(_: &(), _: usize) -> bool { true }
    fn mk_out(_: usize) {}
    fn is_out(_: &(), _: usize) -> bool { true }
}

/// large elements
pub struct Large;
impl Elem for Large {
    type T = [u64; 4];
    type U = [i64; 4];
    const COUNTS_DROPS: bool = false;
    fn mk_in(i: usize) -> [u64; 4] { unsafe { [POD_IN[i] as u64, 1, 2, i as u64] } }
    fn is_in(t: &[u64; 4], i: usize) -> bool { unsafe { t[0] == POD_IN[i] as u64 && t[1] == 1 && t[2] == 2 && t[3] == i as u64 } }
    fn mk_out(id: usize) -> [i64; 4] { unsafe { [POD_OUT[id] as i64, -1, -2, id as i64] } }
    fn is_out(u: &[i64; 4], id: usize) -> bool { unsafe { u[0] == POD_OUT[id] as i64 && u[1] == -1 && u[2] == -2 && u[3] == id as i64 } }
}

/// over-aligned elements
#[repr(align(16))]
pub struct A16In(u32);
#[repr(align(16))]
pub struct A16Out(i32);
pub struct OverAligned;
impl Elem for OverAligned {
    type T = A16In;
    type U = A16Out;
    const COUNTS_DROPS: bool = false;
    fn mk_in(i: usize) -> A16In { unsafe { A16In(POD_IN[i]) } }
    fn is_in(t: &A16In, i: usize) -> bool { unsafe { t.0 == POD_IN[i] } }
    fn mk_out(id: usize) -> A16Out { unsafe { A16Out(POD_OUT[id]) } }
    fn is_out(u: &A16Out, id: usize) -> bool { unsafe { u.0 == POD_OUT[id] } }
}

fn any_len(max: usize) -> usize {
    let len: usize = kani::any();
    kani::assume(len <= max);
    len
}

macro_rules! family {
    ($modname:ident, $elem:ty, $max:expr) => {
        pub mod $modname {
            use super::*;
            #[kani::proof]
            #[kani::unwind(11)]
            #[kani::stub(real_cu, cu_stub)]
            pub fn c08_success() {
                unsafe { pod_init() };
                let len = any_len($max);
                check_success::<$elem>(len, $max);
            }
            #[kani::proof]
            #[kani::unwind(11)]
            #[kani::stub(real_cu, cu_stub)]
            pub fn c09_error() {
                unsafe { pod_init() };
                let len = any_len($max);
                let fail_at: usize = kani::any();
                kani::assume(fail_at < len);
                check_failure::<$elem>(len, fail_at);
            }
        }
    };
}

family!(pod, PodU32, N);
family!(tokens, Tokens, N);
family!(boxes, Boxes, N - 1);
family!(units, Units, N);
family!(large, Large, N - 1);
family!(overaligned, OverAligned, N - 1);

/// `convert_vec_in_place` (the infallible wrapper) delegates: same postcondition through it.
#[kani::proof]
#[kani::unwind(11)]
#[kani::stub(real_cu, cu_stub)]
pub fn c08_wrapper_pod() {
    unsafe { pod_init() };
    let len = any_len(3);
    unsafe { ghost_init(len, NEVER) };
    let v = build_input::<PodU32>(len);
    let cap = v.capacity();
    let ptr = v.as_ptr() as usize;
    let out = convert_vec_in_place::<u32, i32, _>(v, |t, p| match spec_converter::<PodU32>(t, p) {
        Ok(r) => r,
        Err(_) => unreachable!(),
    });
    unsafe {
        assert!(G.calls == len);
        assert!(out.len() == G.kept);
        let mut j = 0;
        while j < out.len() {
            assert!(PodU32::is_out(&out[j], G.expect[j] as usize));
            j += 1;
        }
        assert!(out.capacity() == cap && out.as_ptr() as usize == ptr);
    }
}

// ---------------------------------------------------------------------------------------------
// C10: mismatching element types are refused before anything is touched.
//
// Each harness must FAIL in exactly one way: the size (or alignment) assertion of the real
// function; the cover inside the converter must be unsatisfiable.  kani_units.py checks both (the
// set of failed checks and the cover count), so a harness that "passes" is a violation too.
// (A stub of `ManuallyDrop::new` carrying a cover "ownership taken before the refusal" was tried: the
// Kani compiler aborts (SIGABRT) on it.  "The refused vector is dropped normally" therefore stays an
// argument -- the refusal precedes `ManuallyDrop::new` in the source -- not a checked clause.)
macro_rules! mismatch {
    ($name:ident, $t:ty, $u:ty, $len:expr, $mk:expr) => {
        #[kani::proof]
        #[kani::unwind(4)]
        #[kani::stub(real_cu, cu_stub)]
        pub fn $name() {
            // the refusal must happen for THIS length (0 and 2 are separate harnesses: a check
            // weakened to `size * len` would let the empty vector through)
            let len: usize = $len;
            let mut v: Vec<$t> = Vec::with_capacity(2);
            let mut i = 0;
            while i < len {
                v.push($mk);
                i += 1;
            }
            let _ = try_convert_vec_in_place::<$t, $u, _, ()>(v, |_t, _p| {
                kani::cover!(true, "C10: converter reached");
                Ok(VecElementConversionResult::Abandonned)
            });
        }
    };
}

#[repr(align(4))]
#[derive(Clone, Copy)]
pub struct Bytes4Aligned4([u8; 4]);

pub mod c10 {
    use super::*;
    // size differs, alignment differs
    mismatch!(c10_size_align_u32_u16_len2, u32, u16, 2, kani::any());
    mismatch!(c10_size_align_u32_u16_len0, u32, u16, 0, kani::any());
    // size differs, alignment equal
    mismatch!(c10_size_u8x4_u8x3_len2, [u8; 4], [u8; 3], 2, kani::any());
    mismatch!(c10_size_u8x4_u8x3_len0, [u8; 4], [u8; 3], 0, kani::any());
    // size equal, alignment differs (both directions)
    mismatch!(c10_align_u8x4_u32_len2, [u8; 4], u32, 2, kani::any());
    mismatch!(c10_align_u8x4_u32_len0, [u8; 4], u32, 0, kani::any());
    mismatch!(c10_align_u32_u8x4_len2, u32, [u8; 4], 2, kani::any());
    mismatch!(c10_align_u32_u8x4_len0, u32, [u8; 4], 0, kani::any());
    // zero-size vs non-zero-size (both directions)
    mismatch!(c10_zst_unit_u8_len2, (), u8, 2, ());
    mismatch!(c10_zst_unit_u8_len0, (), u8, 0, ());
    mismatch!(c10_zst_u8_unit_len2, u8, (), 2, kani::any());
    // size equal (0), alignment differs
    mismatch!(c10_align_zst_len2, (), [u32; 0], 2, ());
    // owned heap elements
    mismatch!(c10_size_box_u8_len2, Box<u8>, u8, 2, Box::new(kani::any()));
}

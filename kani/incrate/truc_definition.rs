// Included by the cfg(kani) hook at the end of /repo/truc/src/record/definition/mod.rs
// (`mod verif_kani`), i.e. as a child of `record::definition`: private fields are accessible.
//
// D1  max_size / max_type_align : no panic for every state the builder can produce (including
//     data added and removed again before their variant was closed: they stay in the collection
//     with the sentinel offset usize::MAX and belong to no variant); every datum of every variant
//     ends at or before max_size; max_type_align is a multiple of its alignment (power-of-two
//     alignments).           BOUNDED: <= 3 data, 2 variants (the second a symbolic subset of the first).
// L4  Vec<DatumId>::remove_data : result = input filtered, order kept.   BOUNDED: list <= 4, removals <= 3.
// (align_bytes: proved unbounded by Verus in unit layout; a full-domain Kani contract on 64-bit / and % did not finish in 5 min)
use super::{
    builder::native::variant::NativeDataUpdater,
    *,
};
use crate::record::type_resolver::TypeInfo;

fn datum(id: usize, offset: usize, size: usize, align: usize) -> DatumDefinition<NativeDatumDetails> {
    DatumDefinition {
        id: DatumId(id),
        name: String::new(),
        details: NativeDatumDetails { offset, type_info: TypeInfo { name: String::new(), size, align }, allow_uninit: false },
    }
}

fn pow2_align() -> usize {
    let e: u8 = kani::any();
    kani::assume(e <= 4);
    1usize << e
}

/// a definition as the builder can leave it: data 0 and 1 placed (aligned, inside 2^40), datum 2
/// either placed as well or added-then-removed-before-close (sentinel offset, in no variant);
/// two variants: the first lists every placed datum, the second a symbolic subset of them
/// (data removed by the second variant still belong to the definition)
fn any_definition(two_variants: bool) -> (RecordDefinition<NativeDatumDetails>, [bool; 3]) {
    let mut data = Vec::with_capacity(3);
    let mut in_variant = [true, true, true];
    let mut list = Vec::with_capacity(3);
    let mut k = 0;
    while k < 3 {
        let size: usize = kani::any();
        let align = pow2_align();
        let offset: usize = kani::any();
        kani::assume(size <= (1 << 20));
        let pending_removed: bool = if k == 2 { kani::any() } else { false };
        if pending_removed {
            data.push(datum(k, usize::MAX, size, align));
            in_variant[k] = false;
        } else {
            kani::assume(offset <= (1 << 40) && offset % align == 0);
            data.push(datum(k, offset, size, align));
            list.push(DatumId(k));
        }
        k += 1;
    }
    let variants = if two_variants {
        // the second variant keeps a symbolic subset (what it removed still belongs to the definition)
        let mut second = Vec::with_capacity(3);
        let mut k = 0;
        while k < list.len() {
            let keep: bool = kani::any();
            if keep {
                second.push(list[k]);
            }
            k += 1;
        }
        vec![RecordVariant { id: RecordVariantId(0), data: list }, RecordVariant { id: RecordVariantId(1), data: second }]
    } else {
        vec![RecordVariant { id: RecordVariantId(0), data: list }]
    };
    let def = RecordDefinition { datum_definitions: DatumDefinitionCollection { data }, variants };
    (def, in_variant)
}

#[kani::proof]
#[kani::unwind(5)]
pub fn c13_c02_max_size_never_panics_and_bounds_every_datum() {
    let (def, in_variant) = any_definition(false);
    let m = def.max_size(); // must not panic (C13)
    let mut k = 0;
    while k < 3 {
        if in_variant[k] {
            let d = def.datum_definitions.data[k].details();
            assert!(d.offset() + d.size() <= m, "C02: a datum of a variant ends beyond the published capacity");
        }
        k += 1;
    }
    kani::cover!(!in_variant[2], "reachable: a datum added and removed before its variant was closed");
}

#[kani::proof]
#[kani::unwind(5)]
pub fn c13_c02_max_type_align_is_a_multiple_of_every_alignment() {
    let (def, in_variant) = any_definition(true);
    let a = def.max_type_align(); // must not panic (C13)
    assert!(a > 0);
    let mut k = 0;
    while k < 3 {
        if in_variant[k] {
            assert!(a % def.datum_definitions.data[k].details().type_align() == 0, "C02: record alignment is not a multiple of a datum's alignment");
        }
        k += 1;
    }
}

/// capacity over several variants of fixed shape (an empty variant first / in the middle, data only
/// present in an earlier variant), symbolic offsets and sizes
#[kani::proof]
#[kani::unwind(5)]
pub fn c13_c02_max_size_covers_every_variant() {
    let o0: usize = kani::any();
    let s0: usize = kani::any();
    let o1: usize = kani::any();
    let s1: usize = kani::any();
    kani::assume(o0 <= (1 << 40) && s0 <= (1 << 20) && o1 <= (1 << 40) && s1 <= (1 << 20));
    let shape: u8 = kani::any();
    kani::assume(shape < 3);
    let (v0, v1, v2): (Vec<DatumId>, Vec<DatumId>, Vec<DatumId>) = match shape {
        0 => (vec![], vec![DatumId(0), DatumId(1)], vec![DatumId(1)]),
        1 => (vec![DatumId(0)], vec![], vec![DatumId(1)]),
        _ => (vec![DatumId(0), DatumId(1)], vec![DatumId(1)], vec![]),
    };
    let def = RecordDefinition {
        datum_definitions: DatumDefinitionCollection { data: vec![datum(0, o0, s0, 1), datum(1, o1, s1, 1)] },
        variants: vec![RecordVariant { id: RecordVariantId(0), data: v0 }, RecordVariant { id: RecordVariantId(1), data: v1 }, RecordVariant { id: RecordVariantId(2), data: v2 }],
    };
    let m = def.max_size();
    assert!(o0 + s0 <= m && o1 + s1 <= m, "C02: a datum of some variant ends beyond the published capacity");
}

#[kani::proof]
pub fn c13_empty_definition() {
    let def = RecordDefinition::<NativeDatumDetails> { datum_definitions: DatumDefinitionCollection { data: Vec::new() }, variants: Vec::new() };
    assert!(def.max_size() == 0);
    assert!(def.max_type_align() == 1);
}

// ---------------------------------------------------------------------------------------------
#[kani::proof]
#[kani::unwind(6)]
pub fn l4_remove_data_is_filter_keeping_order() {
    let n: usize = kani::any();
    kani::assume(n <= 4);
    let ids: [u8; 4] = kani::any();
    let m: usize = kani::any();
    kani::assume(m <= 3);
    let rm: [u8; 3] = kani::any();
    let mut list = Vec::with_capacity(4);
    let mut i = 0;
    while i < n {
        kani::assume(ids[i] < 6);
        list.push(DatumId(ids[i] as usize));
        i += 1;
    }
    let mut rml = Vec::with_capacity(3);
    let mut j = 0;
    while j < m {
        kani::assume(rm[j] < 6);
        rml.push(DatumId(rm[j] as usize));
        j += 1;
    }
    let before = list.clone();
    list.remove_data(rml.iter().cloned());
    // specification: filter, order kept
    let mut k = 0;
    let mut o = 0;
    while k < n {
        let x = before[k];
        let mut removed = false;
        let mut j = 0;
        while j < m {
            if rml[j] == x {
                removed = true;
            }
            j += 1;
        }
        if !removed {
            assert!(o < list.len() && list[o] == x, "L4: survivor missing or out of order");
            o += 1;
        }
        k += 1;
    }
    assert!(list.len() == o, "L4: an element that should have been removed survived");
    kani::cover!(n == 4 && o == 2, "reachable: two of four removed");
}


// (Kani harnesses for the two strategies shipped with the generic builder -- retain + any + push over
// symbolic vectors of <= 3 / <= 2 / <= 2 elements -- did not finish in 10 minutes; those two functions
// are covered by the bounded-exhaustive request sequences of `bx builder-history` instead.)

// `./check --replay` writes Kani's counterexample (a unit test) into this file and runs it natively
// with `cargo kani playback`; it is empty otherwise.
#[cfg(test)]
mod playback_generated {
    use super::*;
    include!(concat!(env!("VERIF_KANI_DIR"), "/playback_definition.rs"));
}

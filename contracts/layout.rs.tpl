// Obligation unit `layout`: variant-closing strategies of the native builder.
//!min-verified: 44
//!assume: std: `X.iter().cloned()` yields the elements of X in order (rule R10, `vx_iter_cloned` is external_body)
//!assume: std: Vec::retain keeps, in order, exactly the elements its predicate accepts (assume_specification); `X.clone().into_iter().any(p)` is true iff p accepts some element of the source (rule R12, external_body wrapper). With these, `remove_data` itself is proved here; it is also checked by Kani (bounded) in unit kani-definition (harness l4_remove_data_is_filter_keeping_order)
//!assume: derive(Clone, Copy, PartialEq, Eq) on DatumId behaves as documented (rule R5)
//!assume: domain bound: ends of existing data <= 2^30, size+align of an added datum <= 2^14, <= 2^16 additions per close; outside it usize arithmetic of the real code overflows
//!assume: select_best returns the result of one of its two candidate closures (sig-only, external_body): discharged by Kani on the full usize domain in unit kani-simple-leaves (harness l7_select_best_returns_one_candidate_and_terminates)
//!assume: Verus' encoding of Rust semantics, Z3, rustc front end
//!props fn align_bytes : C01, C02
//!props fn end : C01, C02, C03
//!props fn push_datum : C01, C02, C03
//!props fn remove_data : C01, C02, C03, C12
//!props fn append_data : C01, C02, C03, C12, C13
//!props fn append_data_reverse : C01, C02, C03, C12, C13
//!props fn basic : C01, C02, C03, C12, C13
//!props fn fit_datum_to_gap : C01, C02
//!props fn select_start_or_end_of_gap : C01, C02
//!props fn selection_value : C01, C02
//!props fn offset : C01, C02, C03
//!props fn size : C01, C02, C03
//!props fn type_align : C01, C02, C03
//!props fn details : C01, C02, C03
//!props fn details_mut : C01, C02, C03
//!props fn get : C01, C02, C03
//!props fn get_mut : C01, C02, C03
//!props lemma lemma_wf_implies_disjoint : C01
//!props lemma lemma_wf_nonzst_strict : C02
//!props lemma lemma_history_step : C01, C02, C03
// Everything between `// from <file>:<line>` markers and the next blank template text is copied
// from /repo on every run by lib/vx.py; contracts are spliced in.  See DESIGN.md 3.2.
#![feature(allocator_api, panic_internals, sized_hierarchy)]
#![allow(internal_features)]
#![allow(unused_imports, unused_variables, dead_code, non_snake_case, unused_mut)]
use vstd::prelude::*;

impl std::fmt::Display for DatumId {
    fn fmt(&self, f: &mut std::fmt::Formatter<'_>) -> std::fmt::Result { write!(f, "{}", self.0) }
}

verus! {

// ---------------------------------------------------------------------------------------------
// Types (R5: attributes and derives dropped, fields made pub)

#[derive(Clone, Copy, PartialEq, Eq, Structural)]
//@struct truc/src/record/definition/mod.rs :: struct DatumId
//@end

//@struct truc/src/record/type_resolver.rs :: struct TypeInfo
//@end

//@struct truc/src/record/definition/mod.rs :: struct NativeDatumDetails
//@end

//@struct truc/src/record/definition/mod.rs :: struct DatumDefinition
//@end

//@struct truc/src/record/definition/mod.rs :: struct DatumDefinitionCollection
//@end

// ---------------------------------------------------------------------------------------------
// Spec vocabulary (DESIGN.md 4)

pub type Defs = Seq<DatumDefinition<NativeDatumDetails>>;

pub open spec fn off(defs: Defs, id: DatumId) -> int { defs[id.0 as int].details.offset as int }
pub open spec fn sz(defs: Defs, id: DatumId) -> int { defs[id.0 as int].details.type_info.size as int }
pub open spec fn alg(defs: Defs, id: DatumId) -> int { defs[id.0 as int].details.type_info.align as int }
pub open spec fn dend(defs: Defs, id: DatumId) -> int { off(defs, id) + sz(defs, id) }

pub open spec fn valid_ids(data: Seq<DatumId>, defs: Defs) -> bool {
    forall|i: int| 0 <= i < data.len() ==> (#[trigger] data[i]).0 < defs.len()
}
pub open spec fn distinct(data: Seq<DatumId>) -> bool {
    forall|i: int, j: int| #![trigger data[i], data[j]] 0 <= i < j < data.len() ==> data[i] != data[j]
}
pub open spec fn ordered(data: Seq<DatumId>, defs: Defs) -> bool {
    forall|i: int, j: int| #![trigger data[i], data[j]] 0 <= i < j < data.len() ==> dend(defs, data[i]) <= off(defs, data[j])
}
pub open spec fn aligned(data: Seq<DatumId>, defs: Defs) -> bool {
    forall|i: int| 0 <= i < data.len() ==>
        alg(defs, #[trigger] data[i]) > 0 && off(defs, data[i]) % alg(defs, data[i]) == 0
}
/// every listed datum ends at or before `b` (domain bound: makes overflow-freedom provable)
pub open spec fn bounded(data: Seq<DatumId>, defs: Defs, b: int) -> bool {
    forall|i: int| 0 <= i < data.len() ==> dend(defs, #[trigger] data[i]) <= b
}
/// The invariant of a variant's datum list.
pub open spec fn wf(data: Seq<DatumId>, defs: Defs) -> bool {
    valid_ids(data, defs) && distinct(data) && ordered(data, defs) && aligned(data, defs)
}
/// Frame: only the `offset` of the ids in `except` may differ.
pub open spec fn same_except(d0: Defs, d1: Defs, except: Seq<DatumId>) -> bool {
    &&& d0.len() == d1.len()
    &&& forall|k: int| 0 <= k < d0.len() ==>
            (#[trigger] d0[k]).id == d1[k].id && d0[k].name == d1[k].name
            && d0[k].details.type_info == d1[k].details.type_info
            && d0[k].details.allow_uninit == d1[k].details.allow_uninit
    &&& forall|k: int| 0 <= k < d0.len() && !has_id(except, k) ==>
            (#[trigger] d0[k]).details.offset == d1[k].details.offset
}
pub open spec fn has_id(s: Seq<DatumId>, k: int) -> bool {
    exists|i: int| 0 <= i < s.len() && (#[trigger] s[i]).0 == k
}

pub const B: usize = 0x4000_0000;   // ends of pre-existing data
pub const S: usize = 0x4000;        // size + align of one added datum
pub const N: usize = 0x1_0000;      // additions per close

pub open spec fn al(c: int, a: int) -> int { (c + a - 1) / a * a }

pub open spec fn end_of(data: Seq<DatumId>, defs: Defs) -> int {
    if data.len() == 0 { 0 } else { dend(defs, data[data.len() - 1]) }
}

/// what the caller of a strategy guarantees about the data to add
pub open spec fn add_ok(add: Seq<DatumId>, data: Seq<DatumId>, defs: Defs) -> bool {
    &&& valid_ids(add, defs)
    &&& distinct(add)
    &&& forall|i: int, j: int| 0 <= i < add.len() && 0 <= j < data.len() ==> add[i] != data[j]
    &&& forall|i: int| 0 <= i < add.len() ==>
            alg(defs, #[trigger] add[i]) > 0 && sz(defs, add[i]) + alg(defs, add[i]) <= S
    &&& add.len() <= N
}

pub open spec fn members_are(out: Seq<DatumId>, data: Seq<DatumId>, add: Seq<DatumId>) -> bool {
    &&& out.len() == data.len() + add.len()
    &&& forall|id: DatumId| out.contains(id) <==> data.contains(id) || add.contains(id)
}

/// `s` with the members of `rm` filtered out, order kept
pub open spec fn filtered(s: Seq<DatumId>, rm: Seq<DatumId>) -> Seq<DatumId>
    decreases s.len(),
{
    if s.len() == 0 {
        s
    } else {
        let p = filtered(s.drop_last(), rm);
        if rm.contains(s.last()) { p } else { p.push(s.last()) }
    }
}

// std iterator glue (assumed): see rule R10
#[verifier::external_type_specification]
#[verifier::external_body]
#[verifier::reject_recursive_types(I)]
pub struct ExCloned<I>(core::iter::Cloned<I>);

pub uninterp spec fn iter_ids<I>(i: I) -> Seq<DatumId>;

pub assume_specification<T, A: core::alloc::Allocator, F: FnMut(&T) -> bool>[ Vec::<T, A>::retain::<F> ](v: &mut Vec<T, A>, f: F)
    requires
        forall|x: &T| f.requires((x,)),
    ensures
        exists|keep: Seq<bool>| keep.len() == old(v)@.len()
            && (forall|i: int| 0 <= i < keep.len() ==> f.ensures((&(#[trigger] old(v)@[i]),), keep[i]))
            && final(v)@ == kept(old(v)@, keep);

/// `src.clone().into_iter().any(p)` for a generic `IntoIterator<Item = DatumId> + Clone` source whose
/// elements are `iter_ids(src)` (rule R12; body = the original expression)
#[verifier::external_body]
pub fn vx_clone_into_iter_any<I: IntoIterator<Item = DatumId> + Clone, P: FnMut(DatumId) -> bool>(src: &I, p: P) -> (r: bool)
    requires
        forall|x: DatumId| p.requires((x,)),
    ensures
        r ==> exists|j: int| 0 <= j < iter_ids(*src).len() && p.ensures((#[trigger] iter_ids(*src)[j],), true),
        !r ==> forall|j: int| 0 <= j < iter_ids(*src).len() ==> p.ensures((#[trigger] iter_ids(*src)[j],), false),
{
    src.clone().into_iter().any(p)
}

/// the sub-sequence of `s` selected by `keep`, order kept
pub open spec fn kept<T>(s: Seq<T>, keep: Seq<bool>) -> Seq<T>
    decreases s.len(),
{
    if s.len() == 0 || keep.len() != s.len() {
        Seq::empty()
    } else {
        let p = kept(s.drop_last(), keep.drop_last());
        if keep.last() { p.push(s.last()) } else { p }
    }
}

#[verifier::external_body]
pub fn vx_iter_cloned<'a>(v: &'a Vec<DatumId>) -> (r: core::iter::Cloned<core::slice::Iter<'a, DatumId>>)
    ensures iter_ids(r) == v@,
{
    v.iter().cloned()
}

// ---------------------------------------------------------------------------------------------
// Lemmas

pub proof fn lemma_al(c: int, a: int)
    requires a > 0, c >= 0,
    ensures al(c, a) >= c, al(c, a) < c + a, al(c, a) % a == 0, (c % a == 0 ==> al(c, a) == c),
{
    let x = c + a - 1;
    let q = x / a;
    vstd::arithmetic::div_mod::lemma_fundamental_div_mod(x, a);
    vstd::arithmetic::div_mod::lemma_mod_pos_bound(x, a);
    vstd::arithmetic::div_mod::lemma_mod_multiples_basic(q, a);
    vstd::arithmetic::mul::lemma_mul_is_commutative(a, q);
    if c % a == 0 {
        let k = c / a;
        vstd::arithmetic::div_mod::lemma_fundamental_div_mod(c, a);
        vstd::arithmetic::mul::lemma_mul_is_commutative(a, k);
        assert(x == k * a + (a - 1));
        vstd::arithmetic::div_mod::lemma_fundamental_div_mod_converse(x, a, k, a - 1);
    }
}

pub proof fn lemma_kept_is_filtered(s: Seq<DatumId>, keep: Seq<bool>, rm: Seq<DatumId>)
    requires
        keep.len() == s.len(),
        forall|i: int| 0 <= i < s.len() ==> keep[i] == !rm.contains(#[trigger] s[i]),
    ensures
        kept(s, keep) == filtered(s, rm),
    decreases s.len(),
{
    if s.len() > 0 {
        let s2 = s.drop_last();
        let k2 = keep.drop_last();
        assert forall|i: int| 0 <= i < s2.len() implies k2[i] == !rm.contains(#[trigger] s2[i]) by {
            assert(s2[i] == s[i] && k2[i] == keep[i]);
        }
        lemma_kept_is_filtered(s2, k2, rm);
        assert(keep.last() == keep[s.len() - 1]);
        assert(s.last() == s[s.len() - 1]);
    } else {
        assert(kept(s, keep) =~= filtered(s, rm));
    }
}

pub proof fn lemma_filtered_members(s: Seq<DatumId>, rm: Seq<DatumId>)
    ensures
        forall|x: DatumId| #[trigger] filtered(s, rm).contains(x) <==> (s.contains(x) && !rm.contains(x)),
        filtered(s, rm).len() <= s.len(),
    decreases s.len(),
{
    if s.len() > 0 {
        let t = s.drop_last();
        lemma_filtered_members(t, rm);
        let p = filtered(t, rm);
        assert forall|x: DatumId| #[trigger] filtered(s, rm).contains(x) <==> (s.contains(x) && !rm.contains(x)) by {
            if s.contains(x) {
                let i = choose|i: int| 0 <= i < s.len() && s[i] == x;
                if i < s.len() - 1 { assert(t[i] == x); }
            }
            if t.contains(x) {
                let i = choose|i: int| 0 <= i < t.len() && t[i] == x;
                assert(s[i] == x);
            }
            if !rm.contains(s.last()) {
                let f = p.push(s.last());
                if p.contains(x) {
                    let i = choose|i: int| 0 <= i < p.len() && p[i] == x;
                    assert(f[i] == x);
                }
                assert(f[f.len() - 1] == s.last());
                assert(s[s.len() - 1] == s.last());
            }
        }
    }
}

pub proof fn lemma_filtered_wf(s: Seq<DatumId>, rm: Seq<DatumId>, defs: Defs, b: int)
    requires wf(s, defs), bounded(s, defs, b),
    ensures wf(filtered(s, rm), defs), bounded(filtered(s, rm), defs, b),
    decreases s.len(),
{
    if s.len() > 0 {
        let t = s.drop_last();
        let l = s.last();
        assert(forall|i: int| 0 <= i < t.len() ==> t[i] == s[i]);
        lemma_filtered_wf(t, rm, defs, b);
        lemma_filtered_members(t, rm);
        let p = filtered(t, rm);
        if !rm.contains(l) {
            let f = p.push(l);
            assert forall|i: int| 0 <= i < p.len() implies p[i] != l && dend(defs, #[trigger] p[i]) <= off(defs, l) by {
                assert(p.contains(p[i]));
                assert(t.contains(p[i]));
                let k = choose|k: int| 0 <= k < t.len() && t[k] == p[i];
                assert(s[k] == p[i]);
                assert(s[s.len() - 1] == l);
            }
            assert(s[s.len() - 1] == l);
            assert forall|i: int, j: int| #![trigger f[i], f[j]] 0 <= i < j < f.len() implies f[i] != f[j] && dend(defs, f[i]) <= off(defs, f[j]) by {
                if j < p.len() { assert(f[i] == p[i] && f[j] == p[j]); } else { assert(f[i] == p[i]); }
            }
            assert forall|i: int| 0 <= i < f.len() implies (#[trigger] f[i]).0 < defs.len() && alg(defs, f[i]) > 0 && off(defs, f[i]) % alg(defs, f[i]) == 0 && dend(defs, f[i]) <= b by {
                if i < p.len() { assert(f[i] == p[i]); }
            }
        }
    }
}

/// facts needed before pushing `add[pos]` onto `filtered(data0, rm) + add.take(pos)`
pub proof fn lemma_step_pre(data0: Seq<DatumId>, rm: Seq<DatumId>, add: Seq<DatumId>, pos: int, data: Seq<DatumId>, defs0: Defs, defs: Defs)
    requires
        add_ok(add, data0, defs0),
        0 <= pos < add.len(),
        data == filtered(data0, rm) + add.take(pos),
        same_except(defs0, defs, add.take(pos)),
    ensures
        add[pos].0 < defs.len(),
        !data.contains(add[pos]),
        alg(defs, add[pos]) > 0,
        sz(defs, add[pos]) + alg(defs, add[pos]) <= S,
{
    lemma_filtered_members(data0, rm);
    let f = filtered(data0, rm);
    let id = add[pos];
    if data.contains(id) {
        let i = choose|i: int| 0 <= i < data.len() && data[i] == id;
        if i < f.len() {
            assert(f[i] == id);
            assert(f.contains(id));
            assert(data0.contains(id));
            let j = choose|j: int| 0 <= j < data0.len() && data0[j] == id;
            assert(add[pos] != data0[j]);
        } else {
            assert(add.take(pos)[i - f.len()] == id);
            assert(add[i - f.len()] == id);
        }
    }
    assert(defs0[id.0 as int].details.type_info == defs[id.0 as int].details.type_info);
}

pub proof fn lemma_frame_step(add: Seq<DatumId>, pos: int, defs0: Defs, defs_b: Defs, defs_a: Defs)
    requires
        0 <= pos < add.len(),
        same_except(defs0, defs_b, add.take(pos)),
        same_except(defs_b, defs_a, seq![add[pos]]),
    ensures
        same_except(defs0, defs_a, add.take(pos + 1)),
{
    let id = add[pos];
    let t0 = add.take(pos);
    let t1 = add.take(pos + 1);
    assert(t1 == t0.push(id));
    assert forall|k: int| 0 <= k < defs0.len() && !has_id(t1, k) implies (#[trigger] defs0[k]).details.offset == defs_a[k].details.offset by {
        if has_id(t0, k) {
            let i = choose|i: int| 0 <= i < t0.len() && (#[trigger] t0[i]).0 == k;
            assert(t1[i].0 == k);
        }
        if has_id(seq![id], k) {
            assert(id.0 == k);
            assert(t1[pos].0 == k);
        }
        assert(defs0[k].details.offset == defs_b[k].details.offset);
        assert(defs_b[k].details.offset == defs_a[k].details.offset);
    }
    assert forall|k: int| 0 <= k < defs0.len() implies
            (#[trigger] defs0[k]).id == defs_a[k].id && defs0[k].name == defs_a[k].name
            && defs0[k].details.type_info == defs_a[k].details.type_info
            && defs0[k].details.allow_uninit == defs_a[k].details.allow_uninit by {
        assert(defs0[k].id == defs_b[k].id);
        assert(defs_b[k].id == defs_a[k].id);
    }
}

/// composing the frame after one push
pub proof fn lemma_step_post(f: Seq<DatumId>, add: Seq<DatumId>, pos: int, data_b: Seq<DatumId>, data_a: Seq<DatumId>, defs0: Defs, defs_b: Defs, defs_a: Defs, newoff: int)
    requires
        0 <= pos < add.len(),
        add.len() <= N,
        valid_ids(add, defs0),
        same_except(defs0, defs_b, add.take(pos)),
        same_except(defs_b, defs_a, seq![add[pos]]),
        data_b == f + add.take(pos),
        data_a == data_b.push(add[pos]),
        !data_b.contains(add[pos]),
        bounded(data_b, defs_b, B + pos * S),
        valid_ids(data_b, defs_b),
        off(defs_a, add[pos]) == newoff,
        newoff + sz(defs_b, add[pos]) <= B + pos * S + S,
    ensures
        same_except(defs0, defs_a, add.take(pos + 1)),
        data_a == f + add.take(pos + 1),
        bounded(data_a, defs_a, B + (pos + 1) * S),
{
    let id = add[pos];
    let t0 = add.take(pos);
    let t1 = add.take(pos + 1);
    assert(t1 == t0.push(id));
    assert(data_a == f + t1);
    assert forall|k: int| 0 <= k < defs0.len() && !has_id(t1, k) implies (#[trigger] defs0[k]).details.offset == defs_a[k].details.offset by {
        if has_id(t0, k) {
            let i = choose|i: int| 0 <= i < t0.len() && (#[trigger] t0[i]).0 == k;
            assert(t1[i].0 == k);
        }
        if has_id(seq![id], k) {
            assert(id.0 == k);
            assert(t1[pos].0 == k);
        }
        assert(defs0[k].details.offset == defs_b[k].details.offset);
        assert(defs_b[k].details.offset == defs_a[k].details.offset);
    }
    assert forall|k: int| 0 <= k < defs0.len() implies
            (#[trigger] defs0[k]).id == defs_a[k].id && defs0[k].name == defs_a[k].name
            && defs0[k].details.type_info == defs_a[k].details.type_info
            && defs0[k].details.allow_uninit == defs_a[k].details.allow_uninit by {
        assert(defs0[k].id == defs_b[k].id);
        assert(defs_b[k].id == defs_a[k].id);
    }
    assert((pos + 1) * S == pos * S + S) by (nonlinear_arith);
    assert forall|i: int| 0 <= i < data_a.len() implies dend(defs_a, #[trigger] data_a[i]) <= B + (pos + 1) * S by {
        if i < data_b.len() {
            let d = data_b[i];
            assert(data_a[i] == d);
            assert(d != id) by { if d == id { assert(data_b.contains(id)); } }
            assert(!has_id(seq![id], d.0 as int));
            assert(defs_b[d.0 as int].details.offset == defs_a[d.0 as int].details.offset);
            assert(dend(defs_b, data_b[i]) <= B + pos * S);
        } else {
            assert(data_a[i] == id);
        }
    }
}

pub proof fn lemma_finish(data0: Seq<DatumId>, rm: Seq<DatumId>, add: Seq<DatumId>, out: Seq<DatumId>, defs1: Defs)
    requires
        add.len() <= N,
        out == filtered(data0, rm) + add,
        bounded(out, defs1, B + add.len() * S),
    ensures
        members_are(out, filtered(data0, rm), add),
        bounded(out, defs1, B + N * S),
{
    let f = filtered(data0, rm);
    assert(add.len() * S <= N * S) by (nonlinear_arith) requires add.len() <= N;
    assert forall|id: DatumId| out.contains(id) <==> f.contains(id) || add.contains(id) by {
        if out.contains(id) {
            let i = choose|i: int| 0 <= i < out.len() && out[i] == id;
            if i < f.len() { assert(f[i] == id); } else { assert(add[i - f.len()] == id); }
        }
        if f.contains(id) {
            let i = choose|i: int| 0 <= i < f.len() && f[i] == id;
            assert(out[i] == id);
        }
        if add.contains(id) {
            let i = choose|i: int| 0 <= i < add.len() && add[i] == id;
            assert(out[f.len() + i] == id);
        }
    }
}

pub proof fn lemma_end_le(data: Seq<DatumId>, defs: Defs, b: int)
    requires bounded(data, defs, b), b >= 0,
    ensures 0 <= end_of(data, defs) <= b,
{
    if data.len() > 0 {
        let x = data[data.len() - 1];
        assert(dend(defs, x) <= b);
    }
}

/// C01: address order implies pairwise disjoint byte ranges.
pub proof fn lemma_wf_implies_disjoint(data: Seq<DatumId>, defs: Defs, i: int, j: int)
    requires wf(data, defs), 0 <= i < data.len(), 0 <= j < data.len(), i != j,
    ensures
        dend(defs, data[i]) <= off(defs, data[j]) || dend(defs, data[j]) <= off(defs, data[i]),
{
}

/// C02: non-zero-size data are listed in strictly increasing address order.
pub proof fn lemma_wf_nonzst_strict(data: Seq<DatumId>, defs: Defs, i: int, j: int)
    requires wf(data, defs), 0 <= i < j < data.len(), sz(defs, data[i]) > 0,
    ensures off(defs, data[i]) < off(defs, data[j]),
{
}

/// History induction step (C01, C02, C03 over whole histories).  What `close_record_variant_with`
/// guarantees (unit builder: the new variant is what the strategy returned, earlier variants are
/// untouched, pending additions occur in no closed variant) together with the strategy contract
/// (frame: only offsets of the added ids change; the returned list is WF) keeps EVERY variant WF and
/// moves no datum of an already closed variant.
pub open spec fn no_common_id(a: Seq<DatumId>, b: Seq<DatumId>) -> bool {
    forall|i: int, j: int| #![trigger a[i], b[j]] 0 <= i < a.len() && 0 <= j < b.len() ==> a[i] != b[j]
}

pub proof fn lemma_history_step(variants: Seq<Seq<DatumId>>, to_add: Seq<DatumId>, defs0: Defs, defs1: Defs, out: Seq<DatumId>)
    requires
        forall|v: int| 0 <= v < variants.len() ==> wf(#[trigger] variants[v], defs0),
        forall|v: int| 0 <= v < variants.len() ==> no_common_id(to_add, #[trigger] variants[v]),
        same_except(defs0, defs1, to_add),
        wf(out, defs1),
    ensures
        forall|v: int| 0 <= v < variants.push(out).len() ==> wf(#[trigger] variants.push(out)[v], defs1),
        forall|v: int, i: int| 0 <= v < variants.len() && 0 <= i < variants[v].len() ==>
            off(defs1, #[trigger] variants[v][i]) == off(defs0, variants[v][i]),
{
    assert forall|v: int, i: int| 0 <= v < variants.len() && 0 <= i < variants[v].len() implies
        off(defs1, #[trigger] variants[v][i]) == off(defs0, variants[v][i])
        && sz(defs1, variants[v][i]) == sz(defs0, variants[v][i])
        && alg(defs1, variants[v][i]) == alg(defs0, variants[v][i]) by {
        let d = variants[v][i];
        assert(wf(variants[v], defs0));
        assert(no_common_id(to_add, variants[v]));
        assert(!has_id(to_add, d.0 as int)) by {
            if has_id(to_add, d.0 as int) {
                let j = choose|j: int| 0 <= j < to_add.len() && (#[trigger] to_add[j]).0 == d.0 as int;
                assert(to_add[j] != variants[v][i]);
            }
        }
        assert(defs0[d.0 as int].details.offset == defs1[d.0 as int].details.offset);
        assert(defs0[d.0 as int].details.type_info == defs1[d.0 as int].details.type_info);
    }
    let all = variants.push(out);
    assert forall|v: int| 0 <= v < all.len() implies wf(#[trigger] all[v], defs1) by {
        if v < variants.len() {
            let l = variants[v];
            assert(all[v] == l);
            assert(wf(l, defs0));
            assert forall|i: int, j: int| #![trigger l[i], l[j]] 0 <= i < j < l.len() implies dend(defs1, l[i]) <= off(defs1, l[j]) by {
                assert(off(defs1, variants[v][i]) == off(defs0, variants[v][i]));
                assert(off(defs1, variants[v][j]) == off(defs0, variants[v][j]));
            }
            assert forall|i: int| 0 <= i < l.len() implies (#[trigger] l[i]).0 < defs1.len() && alg(defs1, l[i]) > 0 && off(defs1, l[i]) % alg(defs1, l[i]) == 0 by {
                assert(off(defs1, variants[v][i]) == off(defs0, variants[v][i]));
            }
        } else {
            assert(all[v] == out);
        }
    }
}

// ---------------------------------------------------------------------------------------------
// R8: accessors, extracted with definitional contracts

impl NativeDatumDetails {
//@fn truc/src/record/definition/mod.rs :: impl NativeDatumDetails :: fn offset
//@ ret r
//@ ensures
        r == self.offset
//@end

//@fn truc/src/record/definition/mod.rs :: impl NativeDatumDetails :: fn size
//@ ret r
//@ ensures
        r == self.type_info.size
//@end

//@fn truc/src/record/definition/mod.rs :: impl NativeDatumDetails :: fn type_align
//@ ret r
//@ ensures
        r == self.type_info.align
//@end
}

impl<D> DatumDefinition<D> {
//@fn truc/src/record/definition/mod.rs :: impl<D> DatumDefinition<D> :: fn details
//@ ret r
//@ ensures
        *r == self.details
//@end

//@fn truc/src/record/definition/mod.rs :: impl<D> DatumDefinition<D> :: fn details_mut
//@ ret r
//@ ensures
        *r == old(self).details,
        final(self).id == old(self).id,
        final(self).name == old(self).name,
        final(self).details == *final(r)
//@end
}

impl<D> DatumDefinitionCollection<D> {
//@fn truc/src/record/definition/mod.rs :: impl<D> DatumDefinitionCollection<D> :: fn get
//@ ret r
//@ ensures
        r.is_some() == (id.0 < self.data@.len()),
        r.is_some() ==> *r.unwrap() == self.data@[id.0 as int]
//@end

//@fn truc/src/record/definition/mod.rs :: impl<D> DatumDefinitionCollection<D> :: fn get_mut
//@ ret r
//@ ensures
        r.is_some() == (id.0 < old(self).data@.len()),
        r.is_some() ==> *r.unwrap() == old(self).data@[id.0 as int]
            && final(self).data@ == old(self).data@.update(id.0 as int, *final(r.unwrap()))
//@end
}

// ---------------------------------------------------------------------------------------------
// L1 align_bytes

//@fn truc/src/record/definition/builder/native/variant/mod.rs :: fn align_bytes
//@ ret r
//@ requires
        align > 0,
        caret + align <= usize::MAX
//@ ensures
        r == al(caret as int, align as int),
        caret <= r < caret + align,
        r as int % align as int == 0,
        caret as int % align as int == 0 ==> r == caret
//@ hint fn.start
    proof { lemma_al(caret as int, align as int); }
//@end

// ---------------------------------------------------------------------------------------------
// L2-L4 NativeDataUpdater for Vec<DatumId>

pub trait NativeDataUpdater {
    spec fn seq(&self) -> Seq<DatumId>;

//@fn truc/src/record/definition/builder/native/variant/mod.rs :: trait NativeDataUpdater :: fn end
//@ ret r
//@ requires
        valid_ids(self.seq(), datum_definitions.data@),
        bounded(self.seq(), datum_definitions.data@, usize::MAX as int)
//@ ensures
        r == end_of(self.seq(), datum_definitions.data@)
//@end

//@fn truc/src/record/definition/builder/native/variant/mod.rs :: trait NativeDataUpdater :: fn remove_data
//@ ensures
        final(self).seq() == filtered(old(self).seq(), iter_ids(datum_ids))
//@end

//@fn truc/src/record/definition/builder/native/variant/mod.rs :: trait NativeDataUpdater :: fn push_datum
//@ ret r
//@ requires
        wf(old(self).seq(), old(datum_definitions).data@),
        bounded(old(self).seq(), old(datum_definitions).data@, (usize::MAX - S) as int),
        datum_id.0 < old(datum_definitions).data@.len(),
        !old(self).seq().contains(datum_id),
        alg(old(datum_definitions).data@, datum_id) > 0,
        alg(old(datum_definitions).data@, datum_id) <= S
//@ ensures
        final(self).seq() == old(self).seq().push(datum_id),
        r.0 == end_of(old(self).seq(), old(datum_definitions).data@),
        r.1 == al(r.0 as int, alg(old(datum_definitions).data@, datum_id)),
        off(final(datum_definitions).data@, datum_id) == r.1,
        same_except(old(datum_definitions).data@, final(datum_definitions).data@, seq![datum_id]),
        wf(final(self).seq(), final(datum_definitions).data@)
//@end
}

impl NativeDataUpdater for Vec<DatumId> {
    open spec fn seq(&self) -> Seq<DatumId> { self@ }

//@fn truc/src/record/definition/builder/native/variant/mod.rs :: impl NativeDataUpdater for Vec<DatumId> :: fn end
//@ closure 1 params={d__r: &DatumId} ret={(r: usize)}
        requires
            d__r.0 < datum_definitions.data@.len(),
            dend(datum_definitions.data@, *d__r) <= usize::MAX,
        ensures
            r == dend(datum_definitions.data@, *d__r),
//@ hint fn.start
        proof {
            if self@.len() > 0 {
                let x = self@[self@.len() - 1];
                assert(x.0 < datum_definitions.data@.len());
                assert(dend(datum_definitions.data@, x) <= usize::MAX);
            }
        }
//@end

// L4: proved against assumed std specs for Vec::retain and for `clone().into_iter().any(..)` (rule
// R12); the same contract is also checked on this function by Kani (bounded), unit kani-definition
//@fn truc/src/record/definition/builder/native/variant/mod.rs :: impl NativeDataUpdater for Vec<DatumId> :: fn remove_data
//@ closure 1 params={datum_id__r: &DatumId} ret={(b: bool)}
            ensures b == !iter_ids(datum_ids).contains(*datum_id__r)
//@ closure 2 params={did: DatumId} ret={(c: bool)}
            ensures c == (did == datum_id)
//@ hint fn.start
        let ghost data0 = self@;
//@ hint fn.end
        proof {
            let rm = iter_ids(datum_ids);
            let keep = choose|keep: Seq<bool>| keep.len() == data0.len()
                && (forall|i: int| 0 <= i < keep.len() ==> keep[i] == !rm.contains(#[trigger] data0[i]))
                && self@ == kept(data0, keep);
            lemma_kept_is_filtered(data0, keep, rm);
        }
//@end

//@fn truc/src/record/definition/builder/native/variant/mod.rs :: impl NativeDataUpdater for Vec<DatumId> :: fn push_datum
//@ hint fn.start
        let ghost data0 = self@;
        let ghost defs0 = datum_definitions.data@;
        proof {
            assert forall|i: int| 0 <= i < data0.len() implies dend(defs0, #[trigger] data0[i]) <= usize::MAX by {}
        }
//@ hint fn.end
        proof {
            let defs1 = datum_definitions.data@;
            let data1 = self@;
            assert(forall|k: int| 0 <= k < defs1.len() && k != datum_id.0 ==> defs1[k] == defs0[k]);
            assert(forall|i: int| 0 <= i < data0.len() ==> data0[i] != datum_id);
            assert(seq![datum_id][0] == datum_id);
            assert(forall|k: int| 0 <= k < defs1.len() && k != datum_id.0 ==> !has_id(seq![datum_id], k));
            assert(forall|i: int| 0 <= i < data0.len() ==> off(defs1, #[trigger] data1[i]) == off(defs0, data0[i]));
            if data0.len() > 0 {
                assert(forall|i: int| 0 <= i < data0.len() - 1 ==> dend(defs0, data0[i]) <= off(defs0, data0[data0.len() - 1]));
            }
        }
//@end
}

// ---------------------------------------------------------------------------------------------
// L5 append_data / append_data_reverse

pub open spec fn strategy_pre(data: Seq<DatumId>, add: Seq<DatumId>, rm: Seq<DatumId>, defs: Defs) -> bool {
    &&& wf(data, defs)
    &&& bounded(data, defs, B as int)
    &&& add_ok(add, data, defs)
}

pub open spec fn strategy_post(r: Seq<DatumId>, data: Seq<DatumId>, add: Seq<DatumId>, rm: Seq<DatumId>, defs0: Defs, defs1: Defs) -> bool {
    &&& wf(r, defs1)
    &&& members_are(r, filtered(data, rm), add)
    &&& same_except(defs0, defs1, add)
    &&& bounded(r, defs1, B + N * S)
}

//@fn truc/src/record/definition/builder/native/variant/dummy.rs :: fn append_data
//@ attr #[verifier::loop_isolation(false)]
//@ ret r
//@ requires
        strategy_pre(data@, data_to_add@, data_to_remove@, old(datum_definitions).data@)
//@ ensures
        wf(r@, final(datum_definitions).data@), // [C01,C02,C13]
        members_are(r@, filtered(data@, data_to_remove@), data_to_add@), // [C12]
        same_except(old(datum_definitions).data@, final(datum_definitions).data@, data_to_add@), // [C03]
        bounded(r@, final(datum_definitions).data@, B + N * S), // [C02]
//@ hint fn.start
    let ghost data0 = data@;
    let ghost defs0 = datum_definitions.data@;
//@ hint before for#1
    let ghost f = filtered(data0, data_to_remove@);
    proof {
        lemma_filtered_wf(data0, data_to_remove@, defs0, B as int);
        assert(data@ == f + data_to_add@.take(0));
    }
//@ loop 1 iter=it
        invariant
            add_ok(data_to_add@, data0, defs0),
            f == filtered(data0, data_to_remove@),
            wf(data@, datum_definitions.data@),
            data@ == f + data_to_add@.take(it.index@),
            same_except(defs0, datum_definitions.data@, data_to_add@.take(it.index@)),
            bounded(data@, datum_definitions.data@, B + it.index@ * S),
//@ hint loop1.start
        let ghost pos = it.index@;
        let ghost defs_b = datum_definitions.data@;
        let ghost data_b = data@;
        proof {
            assert(datum_id == data_to_add@[pos]);
            lemma_step_pre(data0, data_to_remove@, data_to_add@, pos, data@, defs0, defs_b);
            assert(pos * S <= N * S) by (nonlinear_arith) requires 0 <= pos <= N;
            lemma_end_le(data_b, defs_b, B + pos * S);
        }
//@ hint loop1.end
        proof {
            let defs_a = datum_definitions.data@;
            let e = end_of(data_b, defs_b);
            let a = alg(defs_b, datum_id);
            lemma_al(e, a);
            lemma_step_post(f, data_to_add@, pos, data_b, data@, defs0, defs_b, defs_a, off(defs_a, datum_id));
        }
//@ hint fn.end
    proof {
        assert(data_to_add@.take(data_to_add@.len() as int) == data_to_add@);
        lemma_finish(data0, data_to_remove@, data_to_add@, data@, datum_definitions.data@);
    }
//@end

pub proof fn lemma_add_ok_reverse(add: Seq<DatumId>, data: Seq<DatumId>, defs: Defs)
    requires add_ok(add, data, defs),
    ensures add_ok(add.reverse(), data, defs),
        forall|k: int| has_id(add.reverse(), k) <==> has_id(add, k),
        forall|id: DatumId| add.reverse().contains(id) <==> add.contains(id),
{
    let r = add.reverse();
    let n = add.len() as int;
    assert(forall|i: int| 0 <= i < n ==> r[i] == add[n - 1 - i]);
    assert forall|k: int| has_id(r, k) <==> has_id(add, k) by {
        if has_id(r, k) { let i = choose|i: int| 0 <= i < r.len() && (#[trigger] r[i]).0 == k; assert(add[n - 1 - i].0 == k); }
        if has_id(add, k) { let i = choose|i: int| 0 <= i < add.len() && (#[trigger] add[i]).0 == k; assert(r[n - 1 - i].0 == k); }
    }
    assert forall|id: DatumId| r.contains(id) <==> add.contains(id) by {
        if r.contains(id) { let i = choose|i: int| 0 <= i < r.len() && r[i] == id; assert(add[n - 1 - i] == id); }
        if add.contains(id) { let i = choose|i: int| 0 <= i < add.len() && add[i] == id; assert(r[n - 1 - i] == id); }
    }
    assert forall|i: int, j: int| #![trigger r[i], r[j]] 0 <= i < j < r.len() implies r[i] != r[j] by {
        assert(add[n - 1 - j] != add[n - 1 - i]);
    }
}

pub proof fn lemma_same_except_reverse(d0: Defs, d1: Defs, add: Seq<DatumId>)
    requires same_except(d0, d1, add.reverse()), forall|k: int| has_id(add.reverse(), k) <==> has_id(add, k),
    ensures same_except(d0, d1, add),
{
}

pub proof fn lemma_members_reverse(out: Seq<DatumId>, f: Seq<DatumId>, add: Seq<DatumId>)
    requires members_are(out, f, add.reverse()), forall|id: DatumId| add.reverse().contains(id) <==> add.contains(id),
    ensures members_are(out, f, add),
{
}

//@fn truc/src/record/definition/builder/native/variant/dummy.rs :: fn append_data_reverse
//@ attr #[verifier::loop_isolation(false)]
//@ ret r
//@ requires
        strategy_pre(data@, data_to_add@, data_to_remove@, old(datum_definitions).data@)
//@ ensures
        wf(r@, final(datum_definitions).data@), // [C01,C02,C13]
        members_are(r@, filtered(data@, data_to_remove@), data_to_add@), // [C12]
        same_except(old(datum_definitions).data@, final(datum_definitions).data@, data_to_add@), // [C03]
        bounded(r@, final(datum_definitions).data@, B + N * S), // [C02]
//@ hint fn.start
    let ghost data0 = data@;
    let ghost defs0 = datum_definitions.data@;
    let ghost radd = data_to_add@.reverse();
//@ hint before for#1
    let ghost f = filtered(data0, data_to_remove@);
    proof {
        lemma_filtered_wf(data0, data_to_remove@, defs0, B as int);
        lemma_add_ok_reverse(data_to_add@, data0, defs0);
        assert(data@ == f + radd.take(0));
    }
//@ loop 1 iter=it
        invariant
            add_ok(radd, data0, defs0),
            radd == data_to_add@.reverse(),
            it.seq().len() == radd.len(),
            forall|i: int| 0 <= i < radd.len() ==> *it.seq()[i] == radd[i],
            f == filtered(data0, data_to_remove@),
            wf(data@, datum_definitions.data@),
            data@ == f + radd.take(it.index@),
            same_except(defs0, datum_definitions.data@, radd.take(it.index@)),
            bounded(data@, datum_definitions.data@, B + it.index@ * S),
//@ hint loop1.start
        let ghost pos = it.index@;
        let ghost defs_b = datum_definitions.data@;
        let ghost data_b = data@;
        proof {
            assert(datum_id == radd[pos]);
            lemma_step_pre(data0, data_to_remove@, radd, pos, data@, defs0, defs_b);
            assert(pos * S <= N * S) by (nonlinear_arith) requires 0 <= pos <= N;
            lemma_end_le(data_b, defs_b, B + pos * S);
        }
//@ hint loop1.end
        proof {
            let defs_a = datum_definitions.data@;
            let e = end_of(data_b, defs_b);
            let a = alg(defs_b, datum_id);
            lemma_al(e, a);
            lemma_step_post(f, radd, pos, data_b, data@, defs0, defs_b, defs_a, off(defs_a, datum_id));
        }
//@ hint fn.end
    proof {
        assert(radd.take(radd.len() as int) == radd);
        lemma_finish(data0, data_to_remove@, radd, data@, datum_definitions.data@);
        lemma_add_ok_reverse(data_to_add@, data0, defs0);
        lemma_same_except_reverse(defs0, datum_definitions.data@, data_to_add@);
        lemma_members_reverse(data@, f, data_to_add@);
    }
//@end

// ---------------------------------------------------------------------------------------------
// L6 basic

/// caret invariant of `basic`: everything before `dc` ends at or before `bc`, everything from `dc`
/// on starts at or after `lo`
pub open spec fn caret_ok(data: Seq<DatumId>, defs: Defs, dc: int, bc: int, lo: int) -> bool {
    &&& 0 <= dc <= data.len()
    &&& forall|k: int| 0 <= k < dc ==> dend(defs, #[trigger] data[k]) <= bc
    &&& forall|k: int| dc <= k < data.len() ==> off(defs, #[trigger] data[k]) >= lo
}

pub proof fn lemma_members_step(out_b: Seq<DatumId>, out_a: Seq<DatumId>, f: Seq<DatumId>, add: Seq<DatumId>, pos: int, dc: int)
    requires
        0 <= pos < add.len(),
        0 <= dc <= out_b.len(),
        members_are(out_b, f, add.take(pos)),
        out_a == out_b.insert(dc, add[pos]),
    ensures
        members_are(out_a, f, add.take(pos + 1)),
{
    let id = add[pos];
    let t0 = add.take(pos);
    let t1 = add.take(pos + 1);
    assert(t1 == t0.push(id));
    assert forall|x: DatumId| out_a.contains(x) <==> f.contains(x) || t1.contains(x) by {
        if out_a.contains(x) {
            let i = choose|i: int| 0 <= i < out_a.len() && out_a[i] == x;
            if i < dc { assert(out_b[i] == x); } else if i == dc { assert(t1[pos] == x); } else { assert(out_b[i - 1] == x); }
            if out_b.contains(x) && t0.contains(x) {
                let j = choose|j: int| 0 <= j < t0.len() && t0[j] == x;
                assert(t1[j] == x);
            }
        }
        if out_b.contains(x) {
            let i = choose|i: int| 0 <= i < out_b.len() && out_b[i] == x;
            if i < dc { assert(out_a[i] == x); } else { assert(out_a[i + 1] == x); }
        }
        if t1.contains(x) {
            let j = choose|j: int| 0 <= j < t1.len() && t1[j] == x;
            if j < pos { assert(t0[j] == x); assert(t0.contains(x)); } else { assert(out_a[dc] == x); }
        }
    }
}

pub proof fn lemma_not_member(data0: Seq<DatumId>, rm: Seq<DatumId>, add: Seq<DatumId>, pos: int, data: Seq<DatumId>, defs0: Defs, defs: Defs)
    requires
        add_ok(add, data0, defs0),
        0 <= pos < add.len(),
        members_are(data, filtered(data0, rm), add.take(pos)),
        same_except(defs0, defs, add.take(pos)),
    ensures
        add[pos].0 < defs.len(),
        !data.contains(add[pos]),
        alg(defs, add[pos]) > 0,
        sz(defs, add[pos]) + alg(defs, add[pos]) <= S,
{
    lemma_filtered_members(data0, rm);
    let f = filtered(data0, rm);
    let id = add[pos];
    if f.contains(id) {
        assert(data0.contains(id));
        let j = choose|j: int| 0 <= j < data0.len() && data0[j] == id;
        assert(add[pos] != data0[j]);
    }
    if add.take(pos).contains(id) {
        let i = choose|i: int| 0 <= i < pos && add.take(pos)[i] == id;
        assert(add[i] == id);
    }
    assert(defs0[id.0 as int].details.type_info == defs[id.0 as int].details.type_info);
}

pub proof fn lemma_insert_wf(data: Seq<DatumId>, defs_b: Defs, defs_a: Defs, dc: int, id: DatumId, bc: int, bound: int)
    requires
        wf(data, defs_b),
        !data.contains(id),
        id.0 < defs_b.len(),
        same_except(defs_b, defs_a, seq![id]),
        off(defs_a, id) == bc,
        alg(defs_b, id) > 0,
        bc % alg(defs_b, id) == 0,
        caret_ok(data, defs_b, dc, bc, bc + sz(defs_b, id)),
        bounded(data, defs_b, bound),
        bc + sz(defs_b, id) <= bound,
    ensures
        wf(data.insert(dc, id), defs_a),
        caret_ok(data.insert(dc, id), defs_a, dc, bc, bc),
        bounded(data.insert(dc, id), defs_a, bound),
{
    let out = data.insert(dc, id);
    assert(seq![id][0] == id);
    assert forall|i: int| 0 <= i < data.len() implies
        (#[trigger] data[i]).0 < defs_a.len() && data[i] != id
        && off(defs_a, data[i]) == off(defs_b, data[i]) && sz(defs_a, data[i]) == sz(defs_b, data[i])
        && alg(defs_a, data[i]) == alg(defs_b, data[i]) by {
        let d = data[i];
        if d == id { assert(data.contains(id)); }
        assert(!has_id(seq![id], d.0 as int));
        assert(defs_b[d.0 as int].details.offset == defs_a[d.0 as int].details.offset);
        assert(defs_b[d.0 as int].details.type_info == defs_a[d.0 as int].details.type_info);
    }
    assert(defs_b[id.0 as int].details.type_info == defs_a[id.0 as int].details.type_info);
    assert forall|i: int| 0 <= i < out.len() implies
        (#[trigger] out[i]).0 < defs_a.len() && alg(defs_a, out[i]) > 0
        && off(defs_a, out[i]) % alg(defs_a, out[i]) == 0 && dend(defs_a, out[i]) <= bound by {
        if i < dc { assert(out[i] == data[i]); } else if i > dc { assert(out[i] == data[i - 1]); }
    }
    assert forall|i: int, j: int| #![trigger out[i], out[j]] 0 <= i < j < out.len() implies
        out[i] != out[j] && dend(defs_a, out[i]) <= off(defs_a, out[j]) by {
        if i < dc { assert(out[i] == data[i]); } else if i > dc { assert(out[i] == data[i - 1]); }
        if j < dc { assert(out[j] == data[j]); } else if j > dc { assert(out[j] == data[j - 1]); }
    }
    assert forall|k: int| 0 <= k < dc implies dend(defs_a, #[trigger] out[k]) <= bc by { assert(out[k] == data[k]); }
    assert forall|k: int| dc <= k < out.len() implies off(defs_a, #[trigger] out[k]) >= bc by {
        if k > dc { assert(out[k] == data[k - 1]); }
    }
}

//@fn truc/src/record/definition/builder/native/variant/basic.rs :: fn basic
//@ attr #[verifier::loop_isolation(false)]
//@ attr #[verifier::allow_complex_invariants]
//@ ret r
//@ requires
        strategy_pre(data@, data_to_add@, data_to_remove@, old(datum_definitions).data@)
//@ ensures
        wf(r@, final(datum_definitions).data@), // [C01,C02,C13]
        members_are(r@, filtered(data@, data_to_remove@), data_to_add@), // [C12]
        same_except(old(datum_definitions).data@, final(datum_definitions).data@, data_to_add@), // [C03]
        bounded(r@, final(datum_definitions).data@, B + N * S), // [C02]
//@ hint fn.start
    let ghost data0 = data@;
    let ghost defs0 = datum_definitions.data@;
//@ hint before for#1
    let ghost f = filtered(data0, data_to_remove@);
    proof {
        lemma_filtered_wf(data0, data_to_remove@, defs0, B as int);
        assert(data_to_add@.take(0).len() == 0);
        assert(forall|x: DatumId| !data_to_add@.take(0).contains(x));
    }
//@ loop 1 iter=it
        invariant
            add_ok(data_to_add@, data0, defs0),
            f == filtered(data0, data_to_remove@),
            wf(data@, datum_definitions.data@),
            members_are(data@, f, data_to_add@.take(it.index@)),
            same_except(defs0, datum_definitions.data@, data_to_add@.take(it.index@)),
            bounded(data@, datum_definitions.data@, B + it.index@ * S),
            caret_ok(data@, datum_definitions.data@, data_caret as int, byte_caret as int, byte_caret as int),
            byte_caret <= B + it.index@ * S,
//@ hint loop1.start
        let ghost pos = it.index@;
        let ghost defs_b = datum_definitions.data@;
        proof {
            assert(datum_id == data_to_add@[pos]);
            lemma_not_member(data0, data_to_remove@, data_to_add@, pos, data@, defs0, defs_b);
            assert(pos * S <= N * S) by (nonlinear_arith) requires 0 <= pos <= N;
        }
//@ hint before while#1
        let ghost a = datum.details.type_info.align as int;
        let ghost s = datum.details.type_info.size as int;
//@ loop 2
            invariant
                a == datum.details.type_info.align, s == datum.details.type_info.size, a > 0, s + a <= S,
                0 <= pos < N, pos * S <= N * S,
                wf(data@, datum_definitions.data@),
                bounded(data@, datum_definitions.data@, B + pos * S),
                caret_ok(data@, datum_definitions.data@, data_caret as int, byte_caret as int, byte_caret as int),
                byte_caret <= B + pos * S,
            ensures
                caret_ok(data@, datum_definitions.data@, data_caret as int, byte_caret as int, al(byte_caret as int, a) + s),
                byte_caret <= B + pos * S,
            decreases data@.len() - data_caret
//@ hint loop2.start
            proof {
                let defs = datum_definitions.data@;
                let dc = data_caret as int;
                assert(dend(defs, data@[dc]) <= B + pos * S);
                assert(forall|k: int| dc < k < data@.len() ==> dend(defs, data@[dc]) <= off(defs, #[trigger] data@[k]));
                assert(forall|k: int| 0 <= k < dc ==> dend(defs, #[trigger] data@[k]) <= off(defs, data@[dc]));
                lemma_al(byte_caret as int, a);
            }
//@ hint before break#1
                    proof { lemma_al(bc as int, a); }
//@ hint before insert#1
        let ghost data_b = data@;
        let ghost bc0 = byte_caret as int;
        proof { lemma_al(bc0, a); }
//@ hint loop1.end
        proof {
            let defs_a = datum_definitions.data@;
            assert(forall|k: int| 0 <= k < defs_a.len() && k != datum_id.0 ==> defs_a[k] == defs_b[k]);
            assert(seq![datum_id][0] == datum_id);
            assert(forall|k: int| 0 <= k < defs_a.len() && k != datum_id.0 ==> !has_id(seq![datum_id], k));
            assert((pos + 1) * S == pos * S + S) by (nonlinear_arith);
            lemma_insert_wf(data_b, defs_b, defs_a, data_caret as int, datum_id, byte_caret as int, B + (pos + 1) * S);
            lemma_members_step(data_b, data@, f, data_to_add@, pos, data_caret as int);
            lemma_frame_step(data_to_add@, pos, defs0, defs_b, defs_a);
        }
//@ hint fn.end
    proof {
        assert(data_to_add@.take(data_to_add@.len() as int) == data_to_add@);
        assert(data_to_add@.len() * S <= N * S) by (nonlinear_arith) requires data_to_add@.len() <= N;
    }
//@end

// ---------------------------------------------------------------------------------------------
// L7 (part): fit_datum_to_gap, select_start_or_end_of_gap and FittedDatum::selection_value of
// simple.rs.  select_best uses `break <expr>`, which this Verus rejects: its contract ("returns what
// one of its two candidates returns") is assumed here (sig-only) and discharged by Kani on the full
// usize domain (kani/incrate/truc_simple.rs, harness l7_select_best_…).  The main body of simple()
// is covered by the bounded stand-in only.

// `assert_eq!` expands to a call of core::panicking::assert_failed: it must be unreachable
#[verifier::external_type_specification]
pub struct ExAssertKind(core::panicking::AssertKind);

pub assume_specification<T, U>[ core::panicking::assert_failed ](_0: core::panicking::AssertKind, _1: &T, _2: &U, _3: std::option::Option<std::fmt::Arguments<'_>>) -> !
    where T: std::marker::MetaSized + std::fmt::Debug + ?Sized, U: std::marker::MetaSized + std::fmt::Debug + ?Sized,
    requires false;

//@struct truc/src/record/definition/builder/native/variant/simple.rs :: struct Gap
//@end

//@struct truc/src/record/definition/builder/native/variant/simple.rs :: struct FullGap
//@end

#[derive(Clone, Copy, PartialEq, Eq, Structural, Debug)]
//@struct truc/src/record/definition/builder/native/variant/simple.rs :: enum FittedDatumKind
//@end

//@struct truc/src/record/definition/builder/native/variant/simple.rs :: struct FittedDatum
//@end

//@fn truc/src/record/definition/builder/native/variant/simple.rs :: fn fit_datum_to_gap
//@ ret r
//@ requires
        gap.start <= gap.end,
        datum.details.type_info.align > 0,
        gap.start + datum.details.type_info.align + datum.details.type_info.size <= usize::MAX
//@ ensures
        r.is_some() <==> al(gap.start as int, datum.details.type_info.align as int) + datum.details.type_info.size <= gap.end,
        r.is_some() ==> {
            let f = r.unwrap().1;
            &&& f.kind == FittedDatumKind::StartOfGap
            &&& f.gap_index == gap_index
            &&& f.datum_start == al(gap.start as int, datum.details.type_info.align as int) // [C02]
            &&& f.datum_start as int % datum.details.type_info.align as int == 0 // [C02]
            &&& f.datum_end == f.datum_start + datum.details.type_info.size
            &&& gap.start <= f.datum_start && f.datum_end <= gap.end // [C01]
            &&& f.gap_before == f.datum_start - gap.start
            &&& f.gap_after == gap.end - f.datum_end
            &&& r.unwrap().0.0 == f.gap_before + f.gap_after
        },
//@end

impl FittedDatum {
//@fn truc/src/record/definition/builder/native/variant/simple.rs :: impl FittedDatum :: fn selection_value
//@ ret r
//@ ensures
        r == (if self.kind == FittedDatumKind::StartOfGap { self.datum_end } else { self.datum_start }),
//@end
}

// contract assumed here, discharged by Kani (complete: full usize domain, 64-shift loop unwound)
//@fn truc/src/record/definition/builder/native/variant/simple.rs :: fn select_best
//@ attr #[verifier::external_body]
//@ sig-only
//@ ret r
//@ requires
        first_result.requires(()),
        second_result.requires(()),
//@ ensures
        first_result.ensures((), r) || second_result.ensures((), r),
//@end

/// a placement of a datum of `size` bytes inside the hole [gap_start, gap_end)
pub open spec fn placed_in_gap(f: FittedDatum, gap_start: int, gap_end: int, size: int, align: int) -> bool {
    &&& gap_start <= f.datum_start && f.datum_end <= gap_end // [C01]
    &&& f.datum_end == f.datum_start + size
    &&& f.datum_start as int % align == 0 // [C02]
    &&& f.gap_before == f.datum_start - gap_start
    &&& f.gap_after == gap_end - f.datum_end
}

//@fn truc/src/record/definition/builder/native/variant/simple.rs :: fn select_start_or_end_of_gap
//@ ret r
//@ requires
        type_align > 0,
        start_of_gap.kind == FittedDatumKind::StartOfGap,
        start_of_gap.gap_before <= start_of_gap.datum_start <= start_of_gap.datum_end,
        start_of_gap.datum_end + start_of_gap.gap_after <= usize::MAX,
        start_of_gap.datum_start as int % type_align as int == 0,
//@ ensures
        r.gap_index == start_of_gap.gap_index,
        placed_in_gap(r, start_of_gap.datum_start - start_of_gap.gap_before, start_of_gap.datum_end + start_of_gap.gap_after,
            start_of_gap.datum_end - start_of_gap.datum_start, type_align as int), // [C01] [C02]
        r.kind == FittedDatumKind::StartOfGap ==> r.datum_start == start_of_gap.datum_start,
        r.kind == FittedDatumKind::EndOfGap ==> r.datum_start > start_of_gap.datum_start,
//@ closure 1 ret={(c: FittedDatum)}
        ensures c == start_of_gap
//@ closure 2 ret={(c: FittedDatum)}
        ensures
            c.kind == FittedDatumKind::EndOfGap,
            c.gap_index == gap_index,
            c.gap_before == gap_before + delta,
            c.gap_after == gap_after - delta,
            c.datum_start == datum_start + delta,
            c.datum_end == datum_end + delta,
//@ hint before delta#1
    proof {
        let q = gap_after as int / type_align as int;
        vstd::arithmetic::div_mod::lemma_fundamental_div_mod(gap_after as int, type_align as int);
        vstd::arithmetic::div_mod::lemma_mod_bound(gap_after as int, type_align as int);
        assert(q * (type_align as int) == (type_align as int) * q) by (nonlinear_arith);
        assert(0 <= q * type_align as int <= gap_after);
        vstd::arithmetic::div_mod::lemma_mod_multiples_vanish(q, datum_start as int, type_align as int);
        assert((datum_start + q * type_align as int) % (type_align as int) == 0);
    }
//@end

} // verus!

// crate-path scaffolding: `crate::record::…` paths used inside extracted functions resolve to the
// items of this single-file unit
#[allow(unused_imports)]
pub mod record {
    pub mod type_resolver { pub use crate::*; }
    pub mod type_name { pub use crate::*; }
    pub mod definition {
        pub use crate::*;
        pub mod builder {
            pub use crate::*;
            pub mod native { pub use crate::*; pub mod variant { pub use crate::*; } }
            pub mod generic { pub use crate::*; pub mod variant { pub use crate::*; } }
        }
    }
}
fn main() {}

pub fn x(){}

//! gk build script: builds a corpus of record definitions through the *real* builder of /repo,
//! emits their code with the *real* generator, and writes next to each module Kani harnesses
//! derived from the *definition* (field, type, per-variant sets, minus/plus sets) -- never from
//! the generated text.  DESIGN.md 3.4.
use std::{collections::BTreeMap, env, fmt::Write as _, fs, path::PathBuf};

use truc::{
    generator::{
        config::GeneratorConfig,
        fragment::{clone::CloneImplGenerator, serde::SerdeImplGenerator, FragmentGenerator},
        generate,
    },
    record::{
        definition::{
            builder::native::{
                variant::{append_data, append_data_reverse, basic, simple},
                DatumDefinitionOverride, NativeRecordDefinitionBuilder,
            },
            DatumId, NativeDatumDetails, RecordDefinition,
        },
        type_resolver::HostTypeResolver,
    },
};

#[derive(Clone, Copy, PartialEq, Eq, Debug)]
enum K {
    U8,
    U16,
    U32,
    U64,
    U128,
    A3,
    S12,
    S24,
    Unit,
    Zst,
    A16,
    BoxU32,
    Tok,
    Tok4,
    ZTok,
    /// 520-byte plain value (above the size thresholds a generator might switch code paths at)
    Big,
    /// 136-byte plain value
    Wide,
    /// a type whose *name* is an `Option<..>` (generators may special-case names)
    OptU32,
}

impl K {
    fn ty(self) -> &'static str {
        match self {
            K::U8 => "u8",
            K::U16 => "u16",
            K::U32 => "u32",
            K::U64 => "u64",
            K::U128 => "u128",
            K::A3 => "[u8; 3]",
            K::S12 => "[u32; 3]",
            K::S24 => "[u64; 3]",
            K::Unit => "()",
            K::Zst => "crate::support::Zst",
            K::A16 => "crate::support::A16",
            K::BoxU32 => "Box<u32>",
            K::Tok => "crate::support::Tok",
            K::Tok4 => "crate::support::Tok4",
            K::ZTok => "crate::support::ZTok",
            K::Big => "crate::support::Big",
            K::Wide => "crate::support::Wide",
            K::OptU32 => "Option<u32>",
        }
    }
    fn size_align(self) -> (usize, usize) {
        match self {
            K::U8 => (1, 1),
            K::U16 => (2, 2),
            K::U32 => (4, 4),
            K::U64 => (8, 8),
            K::U128 => (16, 16),
            K::A3 => (3, 1),
            K::S12 => (12, 4),
            K::S24 => (24, 8),
            K::Unit | K::Zst | K::ZTok => (0, 1),
            K::A16 => (16, 16),
            K::BoxU32 => (8, 8),
            K::Tok => (2, 1),
            K::Tok4 => (8, 4),
            K::Big => (520, 8),
            K::Wide => (136, 8),
            K::OptU32 => (8, 4),
        }
    }
    fn copy(self) -> bool {
        !matches!(self, K::BoxU32 | K::Tok | K::Tok4 | K::ZTok)
    }
    fn token(self) -> bool {
        matches!(self, K::Tok | K::Tok4)
    }
}

#[derive(Clone, Copy)]
enum S {
    Simple,
    Basic,
    Append,
    AppendRev,
}

#[derive(Clone)]
enum Op {
    /// name, kind, allowed to stay uninitialised
    Add(&'static str, K, bool),
    Remove(&'static str),
    Close(S),
}

struct ModuleDef {
    name: &'static str,
    ops: Vec<Op>,
    clone: bool,
    serde: bool,
    tier: &'static str,
}

#[derive(Clone)]
struct Field {
    name: String,
    /// variable-name stem, unique per datum (a name may be re-used by a later datum)
    var: String,
    id: usize,
    k: K,
    uninit: bool,
    offset: usize,
}

fn corpus() -> Vec<ModuleDef> {
    use Op::*;
    use K::*;
    vec![
        // two variants, Box fields, removed and added fields reusing the same bytes, clone
        ModuleDef {
            name: "m_box_reuse",
            clone: true,
            serde: false,
            tier: "quick",
            ops: vec![
                Add("a", U32, true), Add("b", BoxU32, false), Add("c", U8, true), Close(S::Simple),
                Remove("a"), Remove("b"), Add("e", BoxU32, false), Add("f", U16, true), Close(S::Simple),
            ],
        },
        // drop-counted tokens, four variants, a variant made only of removals, then an empty last variant
        // (everything that is left, a droppable value included, removed by the last conversion)
        ModuleDef {
            name: "m_tokens",
            clone: true,
            serde: false,
            tier: "quick",
            ops: vec![
                Add("t", Tok, false), Add("x", U32, false), Add("u", Tok4, false), Close(S::Simple),
                Remove("t"), Add("v", Tok, false), Add("y", U16, true), Close(S::Basic),
                Remove("x"), Remove("u"), Close(S::Simple),
                Remove("v"), Remove("y"), Close(S::Simple),
            ],
        },
        // odd sizes, zero-size fields (may-be-uninitialised ones too, with the clone fragment), an
        // over-aligned type present in the first two variants only (the definition's alignment is 16,
        // the last variant's own data need 8)
        ModuleDef {
            name: "m_shapes",
            clone: true,
            serde: false,
            tier: "quick",
            ops: vec![
                Add("a3", A3, true), Add("z", Unit, true), Add("s12", S12, true), Add("w", A16, true), Close(S::Simple),
                Remove("a3"), Add("s24", S24, true), Add("zz", Zst, true), Add("q", U8, false), Close(S::Simple),
                Remove("w"), Add("r", U16, true), Close(S::Simple),
            ],
        },
        // empty first variant, then only may-be-uninitialised fields, then an empty last variant
        ModuleDef {
            name: "m_empty_then_uninit",
            clone: true,
            serde: true,
            tier: "quick",
            ops: vec![
                Close(S::Simple),
                Add("p", U64, true), Add("q", U16, true), Close(S::Simple),
                Remove("p"), Remove("q"), Close(S::Simple),
            ],
        },
        // a wide removed field whose bytes are taken over by two narrower added fields, twice;
        // a droppable zero-size field removed by a conversion
        ModuleDef {
            name: "m_split",
            clone: true,
            serde: false,
            tier: "quick",
            ops: vec![
                Add("wide", U64, false), Add("keep", U32, false), Add("zt", ZTok, false), Add("t", Tok, false), Close(S::Simple),
                Remove("wide"), Add("lo", U32, false), Add("hi", U32, true), Close(S::Simple),
                Remove("lo"), Remove("zt"), Remove("t"), Add("p", U16, false), Add("q", U16, true), Add("z2", ZTok, false), Close(S::Simple),
            ],
        },
        // names removed and added again in the same step (a new datum, other type), droppable too
        ModuleDef {
            name: "m_readd",
            clone: true,
            serde: false,
            tier: "quick",
            ops: vec![
                Add("id", U32, false), Add("count", U32, false), Add("t", Tok, false), Add("level", U16, true), Close(S::Simple),
                Add("score", U64, true), Close(S::Simple),
                Remove("count"), Remove("level"), Remove("t"), Add("count", U64, false), Add("level", U32, true), Add("t", Tok4, false), Close(S::Simple),
            ],
        },
        // serialization fragment: integers and a droppable value over three variants
        ModuleDef {
            name: "m_serde",
            clone: false,
            serde: true,
            tier: "quick",
            ops: vec![
                Add("a", U32, false), Add("t", Tok, false), Add("b", U8, true), Add("o", OptU32, false), Close(S::Simple),
                Remove("a"), Add("c", U64, false), Add("d", U16, true), Close(S::Simple),
                Remove("t"), Remove("b"), Close(S::Simple),
            ],
        },
        // a zero-size field added in the same step as a real field and fitted at the very offset of
        // that field (end of an alignment gap), declared after it; then a droppable one likewise
        ModuleDef {
            name: "m_zst_share",
            clone: false,
            serde: false,
            tier: "quick",
            ops: vec![
                Add("tag", U8, false), Close(S::Simple),
                Add("old", U32, false), Close(S::Simple),
                Remove("old"), Add("fresh", U32, false), Add("marker", Unit, false), Close(S::Simple),
                Remove("fresh"), Add("lab", U16, false), Add("zt", ZTok, false), Close(S::Simple),
            ],
        },
        // records larger than 128 bytes (clone and serialization fragments), droppable fields on
        // both sides of the large one
        ModuleDef {
            name: "m_wide",
            clone: true,
            serde: true,
            tier: "quick",
            ops: vec![
                Add("t", Tok, false), Add("wide", Wide, false), Add("v", Tok, false), Add("n", U16, true), Close(S::Simple),
                Remove("t"), Add("c", U32, false), Close(S::Simple),
            ],
        },
        // the same with records larger than 512 bytes
        ModuleDef {
            name: "m_big",
            clone: true,
            serde: true,
            tier: "thorough",
            ops: vec![
                Add("t", Tok, false), Add("big", Big, false), Add("v", Tok, false), Add("n", U16, true), Close(S::Simple),
                Remove("t"), Add("c", U32, false), Close(S::Simple),
            ],
        },
        // a variant with ten fields (three of them droppable), then one of seven; clone fragment
        ModuleDef {
            name: "m_many",
            clone: true,
            serde: false,
            tier: "thorough",
            ops: vec![
                Add("f0", U8, true), Add("f1", Tok, false), Add("f2", U16, true), Add("f3", U32, false), Add("f4", Tok4, false),
                Add("f5", U64, true), Add("f6", U8, false), Add("f7", ZTok, false), Add("f8", U16, false), Add("f9", U32, true), Close(S::Simple),
                Remove("f0"), Remove("f5"), Remove("f9"), Close(S::Simple),
            ],
        },
        // four variants, strategy mixture, u128, gaps refilled
        ModuleDef {
            name: "m_mixture",
            clone: false,
            serde: false,
            tier: "thorough",
            ops: vec![
                Add("a", U8, false), Add("b", U64, false), Add("c", U16, true), Close(S::Append),
                Remove("b"), Add("d", U32, true), Add("e", U128, false), Close(S::Simple),
                Remove("a"), Add("f", Tok, false), Add("g", A3, true), Close(S::Basic),
                Remove("c"), Remove("e"), Add("h", BoxU32, false), Close(S::AppendRev),
            ],
        },
        // heap-owning and token fields carried across three variants, clone
        ModuleDef {
            name: "m_carried",
            clone: true,
            serde: false,
            tier: "thorough",
            ops: vec![
                Add("k", BoxU32, false), Add("t", Tok4, false), Add("n", U8, true), Close(S::Basic),
                Add("m", U32, true), Close(S::Basic),
                Remove("n"), Add("o", Tok, false), Close(S::Simple),
            ],
        },
    ]
}

struct Rng(u64);
impl Rng {
    fn next(&mut self) -> u64 {
        // xorshift64*
        self.0 ^= self.0 >> 12;
        self.0 ^= self.0 << 25;
        self.0 ^= self.0 >> 27;
        self.0.wrapping_mul(0x2545F4914F6CDD1D)
    }
    fn below(&mut self, n: u64) -> u64 {
        self.next() % n
    }
}

/// a random definition history: 2-4 variants, 1-3 additions and 0-2 removals per variant, any
/// strategy per variant, at most two drop-counted fields (ghost counters are a fixed array)
fn random_module(index: usize, seed: u64) -> ModuleDef {
    let mut rng = Rng(seed.wrapping_mul(0x9E3779B97F4A7C15).wrapping_add(index as u64 * 7919 + 1) | 1);
    for _ in 0..4 {
        rng.next();
    }
    let kinds = [K::U8, K::U16, K::U32, K::U64, K::U128, K::A3, K::S12, K::S24, K::Unit, K::Zst, K::A16, K::BoxU32, K::Tok, K::Tok4, K::ZTok];
    let mut ops = Vec::new();
    let mut live: Vec<&'static str> = Vec::new();
    let mut freed: Vec<&'static str> = Vec::new();
    let mut counter = 0;
    let mut tokens = 0;
    let nvariants = 2 + rng.below(3) as usize;
    for v in 0..nvariants {
        if v > 0 {
            let nrm = rng.below(3) as usize;
            for _ in 0..nrm.min(live.len()) {
                let i = rng.below(live.len() as u64) as usize;
                let name = live.remove(i);
                freed.push(name);
                ops.push(Op::Remove(name));
            }
        }
        let nadd = 1 + rng.below(3) as usize;
        for _ in 0..nadd {
            let mut k = kinds[rng.below(kinds.len() as u64) as usize];
            if k.token() {
                if tokens >= 2 {
                    k = K::U32;
                } else {
                    tokens += 1;
                }
            }
            // one addition in four re-uses a name that was removed (in this step or earlier)
            let name: &'static str = if !freed.is_empty() && rng.below(4) == 0 {
                freed.remove(rng.below(freed.len() as u64) as usize)
            } else {
                let n: &'static str = Box::leak(format!("f{}", counter).into_boxed_str());
                counter += 1;
                n
            };
            let uninit = k.copy() && rng.below(2) == 0;
            ops.push(Op::Add(name, k, uninit));
            live.push(name);
        }
        ops.push(Op::Close(match rng.below(4) { 0 => S::Simple, 1 => S::Basic, 2 => S::Append, _ => S::AppendRev }));
    }
    ModuleDef { name: Box::leak(format!("r{}_{}", seed, index).into_boxed_str()), ops, clone: rng.below(2) == 0, serde: false, tier: "random" }
}

fn id_index(d: DatumId) -> usize {
    format!("{}", d).parse().unwrap()
}

/// returns the definition and, per datum id, its kind and uninit flag
fn build(def: &ModuleDef) -> (RecordDefinition<NativeDatumDetails>, BTreeMap<usize, (K, bool)>) {
    let mut b = NativeRecordDefinitionBuilder::new(&HostTypeResolver);
    let mut kinds: BTreeMap<usize, (K, bool)> = BTreeMap::new();
    // the live datum carrying each name (a removed name may be added again: a new datum)
    let mut live: BTreeMap<String, DatumId> = BTreeMap::new();
    for op in &def.ops {
        match op {
            Op::Add(name, k, uninit) => {
                assert!(!*uninit || k.copy(), "uninit only for Copy kinds");
                let (size, align) = k.size_align();
                let id = b
                    .add_datum_override::<(), _>(
                        *name,
                        DatumDefinitionOverride {
                            type_name: Some(k.ty().to_owned()),
                            size: Some(size),
                            align: Some(align),
                            allow_uninit: Some(*uninit),
                        },
                    )
                    .unwrap();
                kinds.insert(id_index(id), (*k, *uninit));
                live.insert(name.to_string(), id);
            }
            Op::Remove(name) => {
                let id = live.remove(*name).expect("removing a live name");
                b.remove_datum(id).unwrap();
            }
            Op::Close(s) => {
                match s {
                    S::Simple => b.close_record_variant_with(simple),
                    S::Basic => b.close_record_variant_with(basic),
                    S::Append => b.close_record_variant_with(append_data),
                    S::AppendRev => b.close_record_variant_with(append_data_reverse),
                };
            }
        }
    }
    (b.build(), kinds)
}

fn variant_fields(def: &RecordDefinition<NativeDatumDetails>, kinds: &BTreeMap<usize, (K, bool)>) -> Vec<Vec<Field>> {
    def.variants()
        .map(|v| {
            v.data_sorted()
                .map(|d| {
                    let dd = &def[d];
                    let (k, uninit) = kinds[&id_index(d)];
                    Field { name: dd.name().to_owned(), var: format!("{}_{}", dd.name(), id_index(d)), id: id_index(d), k, uninit, offset: dd.details().offset() }
                })
                .collect()
        })
        .collect()
}

// ---------------------------------------------------------------------------------------------
// harness text

fn seeds(out: &mut String, fields: &[Field], p: &str) {
    for f in fields {
        writeln!(out, "        let {p}_{v} = <{t} as Val>::seed();", v = f.var, t = f.k.ty()).unwrap();
    }
}

fn literal(name: &str, fields: &[Field], p: &dyn Fn(&Field) -> String) -> String {
    let mut s = format!("{} {{ ", name);
    for f in fields {
        write!(s, "{n}: <{t} as Val>::make({seed}), ", n = f.name, t = f.k.ty(), seed = p(f)).unwrap();
    }
    s.push('}');
    s
}

fn check_acc(out: &mut String, recv: &str, fields: &[Field], seed: &dyn Fn(&Field) -> String, tag: &str) {
    for f in fields {
        writeln!(out, "        assert!({recv}.{n}().is({s}), \"{tag}: field {n}\");", n = f.name, s = seed(f)).unwrap();
    }
}

fn has(fields: &[Field], id: usize) -> bool {
    fields.iter().any(|f| f.id == id)
}

fn harnesses(def: &ModuleDef, vars: &[Vec<Field>], max_size: usize, max_align: usize) -> String {
    let mut o = String::new();
    let unwind = 64;
    // GK_SKIP: harnesses left out of a second run (set by lib/kani_units.py when the emitted module no longer
    // offers the interface one harness relies on: that harness is reported, the others still run)
    let skip: Vec<String> = env::var("GK_SKIP").unwrap_or_default().split(',').map(|s| s.to_owned()).collect();
    let module = def.name;
    let hdr = |o: &mut String, name: &str| {
        if skip.contains(&format!("{}::h::{}", module, name)) {
            writeln!(o, "    #[cfg(any())]").unwrap();
        }
        writeln!(o, "    #[kani::proof]\n    #[kani::unwind({unwind})]\n    pub fn {name}() {{").unwrap();
    };
    for (k, fields) in vars.iter().enumerate() {
        let cap = if k % 2 == 0 { "{ MAX_SIZE }".to_string() } else { "{ MAX_SIZE + 8 }".to_string() };
        // ---- C04: new / accessors / mutable accessors / unpack ------------------------------
        hdr(&mut o, &format!("c04_v{k}_new_read_write_unpack"));
        seeds(&mut o, fields, "s");
        writeln!(o, "        let mut r: CappedRecord{k}<{cap}> = CappedRecord{k}::new({});",
            literal(&format!("UnpackedRecord{k}"), fields, &|f| format!("s_{}", f.var))).unwrap();
        check_acc(&mut o, "r", fields, &|f| format!("s_{}", f.var), "C04 read after new");
        let mut cur: BTreeMap<String, String> = fields.iter().map(|f| (f.name.clone(), format!("s_{}", f.var))).collect();
        for f in fields {
            writeln!(o, "        let n_{v} = <{t} as Val>::seed();", v = f.var, t = f.k.ty()).unwrap();
            writeln!(o, "        *r.{n}_mut() = <{t} as Val>::make(n_{v});", n = f.name, v = f.var, t = f.k.ty()).unwrap();
            if f.k.token() {
                writeln!(o, "        assert!(drops(s_{v}.id) == 1, \"C06: value overwritten through {n}_mut destroyed exactly once\");", n = f.name, v = f.var).unwrap();
            }
            cur.insert(f.name.clone(), format!("n_{}", f.var));
            let c2 = cur.clone();
            check_acc(&mut o, "r", fields, &move |g| c2[&g.name].clone(), &format!("C04 write through {}_mut changes that field only", f.name));
        }
        writeln!(o, "        let u = r.unpack();").unwrap();
        for f in fields {
            writeln!(o, "        assert!(u.{n}.is(n_{v}), \"C04 unpack: field {n}\");", n = f.name, v = f.var).unwrap();
            if f.k.token() {
                writeln!(o, "        assert!(drops(n_{v}.id) == 0, \"C06: value handed back by unpack was destroyed\");", v = f.var).unwrap();
            }
        }
        writeln!(o, "        drop(u);").unwrap();
        writeln!(o, "        assert!(no_token_dropped_twice(), \"C06 C07: a value was destroyed twice, i.e. a typed read of a value that had already been moved out (every value moved into the record destroyed exactly once)\");").unwrap();
        writeln!(o, "        assert!(no_token_leaked(), \"C06: a value moved into the record was never destroyed (every value moved into the record destroyed exactly once)\");").unwrap();
        writeln!(o, "    }}\n").unwrap();

        // ---- C04: the From<Unpacked..> / From<UnpackedUninit..> impls ---------------------------
        hdr(&mut o, &format!("c04_v{k}_from_unpacked_impls"));
        seeds(&mut o, fields, "s");
        writeln!(o, "        let r: Record{k} = Record{k}::from({});", literal(&format!("UnpackedRecord{k}"), fields, &|f| format!("s_{}", f.var))).unwrap();
        check_acc(&mut o, "r", fields, &|f| format!("s_{}", f.var), "C04 From<UnpackedRecord>");
        writeln!(o, "        drop(r);").unwrap();
        {
            let mandatory: Vec<Field> = fields.iter().filter(|f| !f.uninit).cloned().collect();
            seeds(&mut o, &mandatory, "m");
            writeln!(o, "        let r2: Record{k} = Record{k}::from({});", literal(&format!("UnpackedUninitRecord{k}"), &mandatory, &|f| format!("m_{}", f.var))).unwrap();
            check_acc(&mut o, "r2", &mandatory, &|f| format!("m_{}", f.var), "C04 From<UnpackedUninitRecord>");
            // a record whose optional fields were never written must still be droppable
            writeln!(o, "        drop(r2);").unwrap();
        }
        writeln!(o, "        assert!(no_token_dropped_twice(), \"C06 C07: a value was destroyed twice (From<Unpacked..>)\");").unwrap();
        writeln!(o, "        assert!(no_token_leaked(), \"C06: a value moved into the record was never destroyed (From<Unpacked..>)\");").unwrap();
        writeln!(o, "    }}\n").unwrap();

        // ---- C04: placements (Box, Vec element), drop without unpack -------------------------
        hdr(&mut o, &format!("c04_v{k}_heap_placements_and_drop"));
        seeds(&mut o, fields, "s");
        seeds(&mut o, fields, "t");
        writeln!(o, "        let b = Box::new(Record{k}::new({}));", literal(&format!("UnpackedRecord{k}"), fields, &|f| format!("s_{}", f.var))).unwrap();
        check_acc(&mut o, "b", fields, &|f| format!("s_{}", f.var), "C04 boxed record");
        writeln!(o, "        let mut v: Vec<Record{k}> = Vec::with_capacity(2);").unwrap();
        writeln!(o, "        v.push(*b);").unwrap();
        writeln!(o, "        v.push(Record{k}::new({}));", literal(&format!("UnpackedRecord{k}"), fields, &|f| format!("t_{}", f.var))).unwrap();
        check_acc(&mut o, "v[0]", fields, &|f| format!("s_{}", f.var), "C04 vector element 0");
        check_acc(&mut o, "v[1]", fields, &|f| format!("t_{}", f.var), "C04 vector element 1");
        writeln!(o, "        assert!(no_token_dropped_twice(), \"C06: moving a record must not destroy its fields\");").unwrap();
        writeln!(o, "        drop(v);").unwrap();
        writeln!(o, "        assert!(no_token_dropped_twice(), \"C06 C07: a value was destroyed twice, i.e. a typed read of a value that had already been moved out (dropping a record destroys every field exactly once)\");").unwrap();
        writeln!(o, "        assert!(no_token_leaked(), \"C06: a value moved into the record was never destroyed (dropping a record destroys every field exactly once)\");").unwrap();
        writeln!(o, "    }}\n").unwrap();

        // ---- C04: new_uninit ---------------------------------------------------------------
        let mandatory: Vec<Field> = fields.iter().filter(|f| !f.uninit).cloned().collect();
        let optional: Vec<Field> = fields.iter().filter(|f| f.uninit).cloned().collect();
        if !optional.is_empty() {
            hdr(&mut o, &format!("c04_v{k}_new_uninit_then_write"));
            seeds(&mut o, &mandatory, "s");
            writeln!(o, "        let mut r: CappedRecord{k}<{cap}> = CappedRecord{k}::new_uninit({});",
                literal(&format!("UnpackedUninitRecord{k}"), &mandatory, &|f| format!("s_{}", f.var))).unwrap();
            check_acc(&mut o, "r", &mandatory, &|f| format!("s_{}", f.var), "C04 mandatory field after new_uninit");
            for f in &optional {
                writeln!(o, "        let s_{v} = <{t} as Val>::seed();", v = f.var, t = f.k.ty()).unwrap();
                writeln!(o, "        *r.{n}_mut() = <{t} as Val>::make(s_{v});", n = f.name, v = f.var, t = f.k.ty()).unwrap();
            }
            check_acc(&mut o, "r", fields, &|f| format!("s_{}", f.var), "C04 after writing the fields left uninitialised");
            writeln!(o, "        let u = r.unpack();").unwrap();
            for f in fields {
                writeln!(o, "        assert!(u.{n}.is(s_{v}), \"C04 unpack after new_uninit: field {n}\");", n = f.name, v = f.var).unwrap();
            }
            writeln!(o, "        drop(u);").unwrap();
            writeln!(o, "        assert!(no_token_dropped_twice(), \"C06 C07: a value was destroyed twice, i.e. a typed read of a value that had already been moved out (exactly once after new_uninit)\");").unwrap();
        writeln!(o, "        assert!(no_token_leaked(), \"C06: a value moved into the record was never destroyed (exactly once after new_uninit)\");").unwrap();
            writeln!(o, "    }}\n").unwrap();
        }

        // ---- C16: clone / clone_from -----------------------------------------------------------
        if def.clone {
            hdr(&mut o, &format!("c16_v{k}_clone_is_equal_and_independent"));
            seeds(&mut o, fields, "s");
            writeln!(o, "        let mut r = Record{k}::new({});", literal(&format!("UnpackedRecord{k}"), fields, &|f| format!("s_{}", f.var))).unwrap();
            writeln!(o, "        let mut c = r.clone();").unwrap();
            for f in fields {
                writeln!(o, "        assert!(c.{n}().same_value(s_{v}), \"C16 clone equal: field {n}\");", n = f.name, v = f.var).unwrap();
            }
            check_acc(&mut o, "r", fields, &|f| format!("s_{}", f.var), "C16 source unchanged by clone");
            for f in fields {
                writeln!(o, "        let n_{v} = <{t} as Val>::seed();", v = f.var, t = f.k.ty()).unwrap();
                writeln!(o, "        *c.{n}_mut() = <{t} as Val>::make(n_{v});", n = f.name, v = f.var, t = f.k.ty()).unwrap();
            }
            check_acc(&mut o, "r", fields, &|f| format!("s_{}", f.var), "C16 mutating the clone leaves the source intact");
            for f in fields {
                writeln!(o, "        let m_{v} = <{t} as Val>::seed();", v = f.var, t = f.k.ty()).unwrap();
                writeln!(o, "        *r.{n}_mut() = <{t} as Val>::make(m_{v});", n = f.name, v = f.var, t = f.k.ty()).unwrap();
            }
            check_acc(&mut o, "c", fields, &|f| format!("n_{}", f.var), "C16 mutating the source leaves the clone intact");
            writeln!(o, "        drop(r);").unwrap();
            check_acc(&mut o, "c", fields, &|f| format!("n_{}", f.var), "C16 clone readable after the source is dropped");
            writeln!(o, "        drop(c);").unwrap();
            writeln!(o, "        assert!(no_token_dropped_twice(), \"C06 C07: a value was destroyed twice, i.e. a typed read of a value that had already been moved out (clone and source destroyed exactly once each)\");").unwrap();
        writeln!(o, "        assert!(no_token_leaked(), \"C06: a value moved into the record was never destroyed (clone and source destroyed exactly once each)\");").unwrap();
            writeln!(o, "    }}\n").unwrap();

            hdr(&mut o, &format!("c16_v{k}_clone_from"));
            seeds(&mut o, fields, "s");
            seeds(&mut o, fields, "t");
            writeln!(o, "        let src = Record{k}::new({});", literal(&format!("UnpackedRecord{k}"), fields, &|f| format!("s_{}", f.var))).unwrap();
            writeln!(o, "        let mut tgt = Record{k}::new({});", literal(&format!("UnpackedRecord{k}"), fields, &|f| format!("t_{}", f.var))).unwrap();
            writeln!(o, "        tgt.clone_from(&src);").unwrap();
            for f in fields {
                writeln!(o, "        assert!(tgt.{n}().same_value(s_{v}), \"C16 clone_from makes the target equal: field {n}\");", n = f.name, v = f.var).unwrap();
                if f.k.token() {
                    writeln!(o, "        assert!(drops(t_{v}.id) == 1, \"C16 previous contents of the target destroyed exactly once: field {n}\");", n = f.name, v = f.var).unwrap();
                }
            }
            check_acc(&mut o, "src", fields, &|f| format!("s_{}", f.var), "C16 source unchanged by clone_from");
            writeln!(o, "        drop(src);\n        drop(tgt);").unwrap();
            writeln!(o, "        assert!(no_token_dropped_twice(), \"C06 C07: a value was destroyed twice, i.e. a typed read of a value that had already been moved out (exactly once after clone_from)\");").unwrap();
        writeln!(o, "        assert!(no_token_leaked(), \"C06: a value moved into the record was never destroyed (exactly once after clone_from)\");").unwrap();
            writeln!(o, "    }}\n").unwrap();
        }

        // ---- C15: serialize / deserialize through the in-harness data format ----------------------
        if def.serde {
            let n = fields.len();
            hdr(&mut o, &format!("c15_v{k}_round_trip"));
            seeds(&mut o, fields, "s");
            writeln!(o, "        let r = Record{k}::new({});", literal(&format!("UnpackedRecord{k}"), fields, &|f| format!("s_{}", f.var))).unwrap();
            writeln!(o, "        let mut buf = crate::tokfmt::Buf::new();").unwrap();
            writeln!(o, "        let res = serde::Serialize::serialize(&r, crate::tokfmt::Ser {{ out: &mut buf }});").unwrap();
            writeln!(o, "        assert!(res.is_ok(), \"C15: serialization failed\");").unwrap();
            writeln!(o, "        assert!(buf.len == {} && buf.toks[0] == crate::tokfmt::Token::TupleStart({n}) && buf.toks[{}] == crate::tokfmt::Token::TupleEnd, \"C15: a record is a tuple of its {n} fields\");", n + 2, n + 1).unwrap();
            for (i, f) in fields.iter().enumerate() {
                writeln!(o, "        assert!(buf.toks[{}] == <{t} as TokVal>::token(s_{v}), \"C15: field {nm} encoded at position {i} (declaration order)\");", i + 1, t = f.k.ty(), nm = f.name, v = f.var).unwrap();
            }
            writeln!(o, "        let sd: bool = nd::<bool>();").unwrap();
            writeln!(o, "        let mut inp = crate::tokfmt::Input {{ toks: &buf.toks, len: buf.len, pos: 0, self_describing: sd }};").unwrap();
            writeln!(o, "        let back: Result<Record{k}, crate::tokfmt::FmtError> = serde::Deserialize::deserialize(crate::tokfmt::De {{ input: &mut inp }});").unwrap();
            writeln!(o, "        assert!(back.is_ok(), \"C15: what was serialized does not deserialize\");").unwrap();
            writeln!(o, "        let back = back.unwrap();").unwrap();
            for f in fields {
                writeln!(o, "        assert!(back.{nm}().same_value(s_{v}), \"C15: field {nm} differs after the round trip\");", nm = f.name, v = f.var).unwrap();
            }
            check_acc(&mut o, "r", fields, &|f| format!("s_{}", f.var), "C15 source unchanged by serialization");
            writeln!(o, "        drop(r);\n        drop(back);").unwrap();
            writeln!(o, "        assert!(no_token_dropped_twice(), \"C06 C07: a value was destroyed twice (serde round trip)\");").unwrap();
            writeln!(o, "        assert!(no_token_leaked(), \"C06 C15: a value was never destroyed (serde round trip)\");").unwrap();
            writeln!(o, "    }}\n").unwrap();

            // malformed input: too few elements / an undecodable element / (self-describing) too many
            hdr(&mut o, &format!("c15_v{k}_malformed_input_is_rejected_without_leak"));
            writeln!(o, "        let mut toks = [crate::tokfmt::Token::Nothing; crate::tokfmt::MAXTOK];").unwrap();
            for (i, f) in fields.iter().enumerate() {
                writeln!(o, "        toks[{}] = <{t} as TokVal>::any_token();", i + 1, t = f.k.ty()).unwrap();
            }
            writeln!(o, "        let fault: u8 = nd::<u8>();").unwrap();
            writeln!(o, "        let p: usize = nd::<usize>();").unwrap();
            writeln!(o, "        let sd: bool = nd::<bool>();").unwrap();
            writeln!(o, "        let len;").unwrap();
            writeln!(o, "        if fault == 0 {{").unwrap();
            writeln!(o, "            // too few: only p < {n} elements").unwrap();
            writeln!(o, "            if !(p < {n}) {{ return; }}").unwrap();
            writeln!(o, "            toks[0] = crate::tokfmt::Token::TupleStart(p); toks[p + 1] = crate::tokfmt::Token::TupleEnd; len = p + 2;").unwrap();
            writeln!(o, "        }} else if fault == 1 {{").unwrap();
            writeln!(o, "            // element p cannot be decoded").unwrap();
            writeln!(o, "            if !(p < {n}) {{ return; }}").unwrap();
            writeln!(o, "            toks[0] = crate::tokfmt::Token::TupleStart({n}); toks[p + 1] = crate::tokfmt::Token::Bad; toks[{}] = crate::tokfmt::Token::TupleEnd; len = {};", n + 1, n + 2).unwrap();
            writeln!(o, "        }} else {{").unwrap();
            writeln!(o, "            // too many elements, in a format that knows the sequence length").unwrap();
            writeln!(o, "            if !sd {{ return; }}").unwrap();
            writeln!(o, "            toks[0] = crate::tokfmt::Token::TupleStart({}); toks[{}] = crate::tokfmt::Token::U8(0); toks[{}] = crate::tokfmt::Token::TupleEnd; len = {};", n + 1, n + 1, n + 2, n + 3).unwrap();
            writeln!(o, "        }}").unwrap();
            writeln!(o, "        let mut inp = crate::tokfmt::Input {{ toks: &toks, len, pos: 0, self_describing: sd }};").unwrap();
            writeln!(o, "        let back: Result<Record{k}, crate::tokfmt::FmtError> = serde::Deserialize::deserialize(crate::tokfmt::De {{ input: &mut inp }});").unwrap();
            writeln!(o, "        assert!(back.is_err(), \"C15: malformed input accepted\");").unwrap();
            writeln!(o, "        drop(back);").unwrap();
            writeln!(o, "        assert!(no_token_dropped_twice(), \"C06 C07: a value was destroyed twice (rejected input)\");").unwrap();
            writeln!(o, "        assert!(no_token_leaked(), \"C15 C06: something already decoded was leaked when the input was rejected\");").unwrap();
            writeln!(o, "    }}\n").unwrap();
        }

        // ---- C05: conversions from the previous variant -----------------------------------------
        if k > 0 {
            let prev = &vars[k - 1];
            let carried: Vec<Field> = fields.iter().filter(|f| has(prev, f.id)).cloned().collect();
            let plus: Vec<Field> = fields.iter().filter(|f| !has(prev, f.id)).cloned().collect();
            let minus: Vec<Field> = prev.iter().filter(|f| !has(fields, f.id)).cloned().collect();
            let plus_mand: Vec<Field> = plus.iter().filter(|f| !f.uninit).cloned().collect();
            let plus_opt: Vec<Field> = plus.iter().filter(|f| f.uninit).cloned().collect();
            for (form, with_out, uninit) in [("all", false, false), ("uninit", false, true), ("out_all", true, false), ("out_uninit", true, true)] {
                hdr(&mut o, &format!("c05_v{k}_from_previous_{form}"));
                seeds(&mut o, prev, "p");
                let pk = k - 1;
                writeln!(o, "        let prev = Record{pk}::new({});", literal(&format!("UnpackedRecord{pk}"), prev, &|f| format!("p_{}", f.var))).unwrap();
                let given: &Vec<Field> = if uninit { &plus_mand } else { &plus };
                seeds(&mut o, given, "a");
                let in_name = if uninit { format!("UnpackedUninitRecordIn{k}") } else { format!("UnpackedRecordIn{k}") };
                let lit = literal(&in_name, given, &|f| format!("a_{}", f.var));
                let recv;
                if with_out {
                    writeln!(o, "        let mut o = Record{k}AndUnpackedOut::<{{ MAX_SIZE }}>::from((prev, {lit}));").unwrap();
                    recv = "o.record";
                    for f in &minus {
                        writeln!(o, "        assert!(o.{n}.is(p_{v}), \"C05 removed field handed back with its value: {n}\");", n = f.name, v = f.var).unwrap();
                        if f.k.token() {
                            writeln!(o, "        assert!(drops(p_{v}.id) == 0, \"C06: field handed back by the conversion must not have been destroyed: {n}\");", n = f.name, v = f.var).unwrap();
                        }
                    }
                } else {
                    writeln!(o, "        let mut r = Record{k}::from((prev, {lit}));").unwrap();
                    recv = "r";
                    for f in &minus {
                        if f.k.token() {
                            writeln!(o, "        assert!(drops(p_{v}.id) == 1, \"C06: field removed by a conversion that does not return it is destroyed by it: {n}\");", n = f.name, v = f.var).unwrap();
                        }
                    }
                }
                check_acc(&mut o, recv, &carried, &|f| format!("p_{}", f.var), "C05 carried-over field keeps its value");
                for f in &carried {
                    if f.k.token() {
                        writeln!(o, "        assert!(drops(p_{v}.id) == 0, \"C06: carried-over field must not be destroyed by the conversion: {n}\");", n = f.name, v = f.var).unwrap();
                    }
                }
                check_acc(&mut o, recv, given, &|f| format!("a_{}", f.var), "C05 added field has the supplied value");
                if uninit {
                    for f in &plus_opt {
                        writeln!(o, "        let a_{v} = <{t} as Val>::seed();", v = f.var, t = f.k.ty()).unwrap();
                        writeln!(o, "        *{recv}.{n}_mut() = <{t} as Val>::make(a_{v});", n = f.name, v = f.var, t = f.k.ty()).unwrap();
                    }
                    check_acc(&mut o, recv, &plus, &|f| format!("a_{}", f.var), "C05 added field written after an uninit conversion");
                    check_acc(&mut o, recv, &carried, &|f| format!("p_{}", f.var), "C05 carried-over field after those writes");
                }
                if with_out {
                    writeln!(o, "        drop(o);").unwrap();
                } else {
                    writeln!(o, "        drop(r);").unwrap();
                }
                writeln!(o, "        assert!(no_token_dropped_twice(), \"C06 C07: a value was destroyed twice, i.e. a typed read of a value that had already been moved out (exactly once across the conversion)\");").unwrap();
        writeln!(o, "        assert!(no_token_leaked(), \"C06: a value moved into the record was never destroyed (exactly once across the conversion)\");").unwrap();
                writeln!(o, "    }}\n").unwrap();
            }
        }
    }

    // ---- C05: chain through all variants, alternating forms ------------------------------------
    if vars.len() > 1 {
        hdr(&mut o, "c05_chain_first_to_last");
        seeds(&mut o, &vars[0], "s");
        writeln!(o, "        let r0 = Record0::new({});", literal("UnpackedRecord0", &vars[0], &|f| format!("s_{}", f.var))).unwrap();
        for k in 1..vars.len() {
            let prev = &vars[k - 1];
            let fields = &vars[k];
            let plus: Vec<Field> = fields.iter().filter(|f| !has(prev, f.id)).cloned().collect();
            seeds(&mut o, &plus, "s");
            let lit = literal(&format!("UnpackedRecordIn{k}"), &plus, &|f| format!("s_{}", f.var));
            if k % 2 == 1 {
                writeln!(o, "        let r{k} = Record{k}::from((r{pk}, {lit}));", pk = k - 1).unwrap();
            } else {
                writeln!(o, "        let o{k} = Record{k}AndUnpackedOut::<{{ MAX_SIZE }}>::from((r{pk}, {lit}));", pk = k - 1).unwrap();
                let minus: Vec<Field> = prev.iter().filter(|f| !has(fields, f.id)).cloned().collect();
                for f in &minus {
                    writeln!(o, "        assert!(o{k}.{n}.is(s_{v}), \"C05 chain: removed field handed back: {n}\");", n = f.name, v = f.var).unwrap();
                }
                // destructure: keep the record, drop the returned fields
                let mut pat = format!("Record{k}AndUnpackedOut {{ record: r{k}, ");
                for f in &minus {
                    write!(pat, "{n}: _ret_{n}, ", n = f.name).unwrap();
                }
                pat.push('}');
                writeln!(o, "        let {pat} = o{k};").unwrap();
            }
            check_acc(&mut o, &format!("r{k}"), fields, &|f| format!("s_{}", f.var), &format!("C05 chain at variant {k}")) ;
        }
        let last = vars.len() - 1;
        writeln!(o, "        let u = r{last}.unpack();").unwrap();
        for f in &vars[last] {
            writeln!(o, "        assert!(u.{n}.is(s_{v}), \"C05 chain: last variant unpacked: {n}\");", n = f.name, v = f.var).unwrap();
        }
        writeln!(o, "        drop(u);").unwrap();
        writeln!(o, "    }}\n").unwrap();
    }

    // ---- C03 / C02: one size and alignment; published constants -----------------------------------
    hdr(&mut o, "c03_one_size_one_alignment_c02_published_constants");
    writeln!(o, "        use std::mem::{{align_of, size_of}};").unwrap();
    writeln!(o, "        assert!(MAX_SIZE == {max_size}, \"C02: published capacity equals the capacity of the definition\");").unwrap();
    // the uninitialised-storage type emitted next to the variants is one of the generated record types
    writeln!(o, "        assert!(size_of::<RecordUninitialized<{{ MAX_SIZE }}>>() == size_of::<Record0>() && align_of::<RecordUninitialized<{{ MAX_SIZE }}>>() == align_of::<Record0>(), \"C03: RecordUninitialized vs variant 0 at the published capacity\");").unwrap();
    writeln!(o, "        assert!(size_of::<RecordUninitialized<{{ MAX_SIZE + 1 }}>>() == size_of::<CappedRecord0<{{ MAX_SIZE + 1 }}>>() && align_of::<RecordUninitialized<{{ MAX_SIZE + 1 }}>>() == align_of::<CappedRecord0<{{ MAX_SIZE + 1 }}>>(), \"C03: RecordUninitialized vs variant 0 at a larger capacity\");").unwrap();
    for (k, fields) in vars.iter().enumerate() {
        writeln!(o, "        assert!(align_of::<Record{k}>() == {max_align}, \"C02/C03: record alignment is the definition's\");").unwrap();
        writeln!(o, "        assert!(size_of::<Record{k}>() == size_of::<Record0>() && align_of::<Record{k}>() == align_of::<Record0>(), \"C03: variant {k} vs variant 0 at the published capacity\");").unwrap();
        writeln!(o, "        assert!(size_of::<CappedRecord{k}<{{ MAX_SIZE + 1 }}>>() == size_of::<CappedRecord0<{{ MAX_SIZE + 1 }}>>() && align_of::<CappedRecord{k}<{{ MAX_SIZE + 1 }}>>() == align_of::<CappedRecord0<{{ MAX_SIZE + 1 }}>>(), \"C03: larger capacity\");").unwrap();
        writeln!(o, "        assert!(size_of::<CappedRecord{k}<{{ 2 * MAX_SIZE + 3 }}>>() == size_of::<CappedRecord0<{{ 2 * MAX_SIZE + 3 }}>>(), \"C03: much larger capacity\");").unwrap();
        writeln!(o, "        assert!(size_of::<Record{k}>() >= MAX_SIZE, \"C02: storage at least the capacity\");").unwrap();
        for f in fields {
            let (sz, al) = f.k.size_align();
            writeln!(o, "        assert!({off} + {sz} <= MAX_SIZE && {off} % {al} == 0 && align_of::<Record{k}>() % {al} == 0 && size_of::<{t}>() == {sz} && align_of::<{t}>() == {al}, \"C02: field {n} of variant {k}\");",
                off = f.offset, t = f.k.ty(), n = f.name).unwrap();
        }
    }
    writeln!(o, "    }}\n").unwrap();
    o
}

/// Native (not Kani) harnesses: the panic clause of C16.  Kani does not unwind, so "a panic inside a
/// field's clone leaks or double-drops nothing" cannot be an obligation there; as a bounded stand-in
/// the real generated `clone` / `clone_from` are executed natively with a panic injected into the
/// j-th clone of a droppable field, for every j, and the ghost drop ledger is checked afterwards.
fn native_harnesses(def: &ModuleDef, vars: &[Vec<Field>]) -> (String, Vec<String>) {
    let mut o = String::new();
    let mut names = Vec::new();
    if !def.clone {
        return (o, names);
    }
    for (k, fields) in vars.iter().enumerate() {
        let ntok = fields.iter().filter(|f| f.k.token() || f.k == K::ZTok).count();
        for j in 0..ntok {
            let name = format!("n16_v{k}_clone_panics_at_{j}");
            writeln!(o, "    pub fn {name}() {{").unwrap();
            writeln!(o, "        reset_ledger();").unwrap();
            seeds(&mut o, fields, "s");
            writeln!(o, "        let r = Record{k}::new({});", literal(&format!("UnpackedRecord{k}"), fields, &|f| format!("s_{}", f.var))).unwrap();
            writeln!(o, "        arm_clone_panic({j});").unwrap();
            writeln!(o, "        let res = std::panic::catch_unwind(std::panic::AssertUnwindSafe(|| r.clone()));").unwrap();
            writeln!(o, "        disarm_clone_panic();").unwrap();
            writeln!(o, "        assert!(res.is_err(), \"vacuity: clone number {j} of a droppable field was never reached\");").unwrap();
            writeln!(o, "        drop(res);").unwrap();
            check_acc(&mut o, "r", fields, &|f| format!("s_{}", f.var), "C16 source intact after a panic inside a field's clone");
            writeln!(o, "        drop(r);").unwrap();
            writeln!(o, "        assert!(no_token_dropped_twice(), \"C16 C06: a panic inside a field's clone made a value be destroyed twice\");").unwrap();
            writeln!(o, "        assert!(no_token_leaked(), \"C16 C06: a panic inside a field's clone leaked a value\");").unwrap();
            writeln!(o, "    }}\n").unwrap();
            names.push(name);

            let name = format!("n16_v{k}_clone_from_panics_at_{j}");
            writeln!(o, "    pub fn {name}() {{").unwrap();
            writeln!(o, "        reset_ledger();").unwrap();
            seeds(&mut o, fields, "s");
            seeds(&mut o, fields, "t");
            writeln!(o, "        let src = Record{k}::new({});", literal(&format!("UnpackedRecord{k}"), fields, &|f| format!("s_{}", f.var))).unwrap();
            writeln!(o, "        let mut tgt = Record{k}::new({});", literal(&format!("UnpackedRecord{k}"), fields, &|f| format!("t_{}", f.var))).unwrap();
            writeln!(o, "        arm_clone_panic({j});").unwrap();
            writeln!(o, "        let res = std::panic::catch_unwind(std::panic::AssertUnwindSafe(|| tgt.clone_from(&src)));").unwrap();
            writeln!(o, "        disarm_clone_panic();").unwrap();
            writeln!(o, "        assert!(res.is_err(), \"vacuity: clone number {j} of a droppable field was never reached\");").unwrap();
            check_acc(&mut o, "src", fields, &|f| format!("s_{}", f.var), "C16 source intact after a panic inside clone_from");
            writeln!(o, "        drop(src);\n        drop(tgt);").unwrap();
            writeln!(o, "        assert!(no_token_dropped_twice(), \"C16 C06: a panic inside clone_from made a value be destroyed twice\");").unwrap();
            writeln!(o, "        assert!(no_token_leaked(), \"C16 C06: a panic inside clone_from leaked a value\");").unwrap();
            writeln!(o, "    }}\n").unwrap();
            names.push(name);
        }
    }
    (o, names)
}

fn main() {
    println!("cargo:rerun-if-changed=build.rs");
    println!("cargo:rerun-if-changed=/repo/truc/src");
    println!("cargo:rerun-if-env-changed=GK_TIER");
    println!("cargo:rerun-if-env-changed=GK_SKIP");
    let tier = env::var("GK_TIER").unwrap_or_else(|_| "quick".into());
    let out = PathBuf::from(env::var("OUT_DIR").unwrap());
    let dump = env::var("GK_DUMP_DIR").ok().map(PathBuf::from);
    let mut lib = String::new();
    let mut table = Vec::new();
    let mut native_table: Vec<String> = Vec::new();
    let seed: u64 = env::var("GK_SEED").ok().and_then(|s| s.parse().ok()).unwrap_or(0);
    let nrandom: usize = env::var("GK_RANDOM").ok().and_then(|s| s.parse().ok()).unwrap_or(if tier == "thorough" { 12 } else { 2 });
    println!("cargo:rerun-if-env-changed=GK_SEED");
    println!("cargo:rerun-if-env-changed=GK_RANDOM");
    let mut modules = corpus();
    for i in 0..nrandom {
        modules.push(random_module(i, seed));
    }
    for m in modules {
        if m.tier == "thorough" && tier != "thorough" {
            continue;
        }
        let (def, kinds) = build(&m);
        let mut gens: Vec<Box<dyn FragmentGenerator>> = if m.clone { vec![Box::new(CloneImplGenerator)] } else { vec![] };
        if m.serde {
            gens.push(Box::new(SerdeImplGenerator));
        }
        let code = generate(&def, &GeneratorConfig::default_with_custom_generators(gens));
        fs::write(out.join(format!("{}.rs", m.name)), &code).unwrap();
        if let Some(d) = &dump {
            fs::create_dir_all(d).unwrap();
            fs::write(d.join(format!("{}.rs", m.name)), &code).unwrap();
        }
        let vars = variant_fields(&def, &kinds);
        let h = harnesses(&m, &vars, def.max_size(), def.max_type_align());
        let (nh, nnames) = native_harnesses(&m, &vars);
        for n in nnames {
            native_table.push(format!("(\"{m}::n::{n}\", {m}::n::{n} as fn())", m = m.name));
        }
        writeln!(lib, "#[allow(dead_code, unused_variables, unused_mut, unused_imports, clippy::all)]\npub mod {name} {{\n    use crate::support::*;\n    include!(concat!(env!(\"OUT_DIR\"), \"/{name}.rs\"));\n    #[cfg(kani)]\n    pub mod h {{\n    use super::*;\n    use crate::support::*;\n{h}    }}\n    #[cfg(not(kani))]\n    pub mod n {{\n    use super::*;\n    use crate::support::*;\n{nh}    }}\n}}\n", name = m.name).unwrap();
        table.push(format!("{}: variants={} {}", m.name, vars.len(), def.to_string().replace('\n', " | ")));
    }
    writeln!(lib, "#[cfg(not(kani))]\npub fn native_table() -> Vec<(&'static str, fn())> {{\n    vec![\n        {}\n    ]\n}}", native_table.join(",\n        ")).unwrap();
    fs::write(out.join("corpus.rs"), lib).unwrap();
    if let Some(d) = &dump {
        fs::write(d.join("corpus_table.txt"), table.join("\n")).unwrap();
        fs::copy(out.join("corpus.rs"), d.join("corpus_harnesses.rs")).unwrap();
    }
}

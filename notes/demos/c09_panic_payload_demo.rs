use truc_runtime::convert::{convert_vec_in_place, VecElementConversionResult};
#[test]
fn payload_is_preserved() {
    let r = std::panic::catch_unwind(|| {
        convert_vec_in_place::<u32, u32, _>(vec![1, 2, 3], |t, _| {
            if t == 2 { std::panic::panic_any(42i32); }
            VecElementConversionResult::Converted(t)
        })
    });
    let payload = r.err().expect("panics");
    assert_eq!(payload.downcast_ref::<i32>(), Some(&42));
}

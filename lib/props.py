"""Property table: which units decide which property, how a unit failure maps to a property, and
how a replay is produced."""
import json
import os
import time

import units
from units import PASS, VIOLATION, INCONCLUSIVE, VERIF, BUILD

_cache = {}
HOOK_COMMITS = ['6c4b112', '6430406', '13ec4a7']

SHAPES_Q = '0:1,1:1,2:2,3:1,4:4,8:8,12:4,0:4'
SHAPES_T = '0:1,1:1,2:2,3:1,4:4,8:8,12:4,0:4,16:16,24:8,2:1,0:8'

BX_BOUNDS = {
    'quick': {'max_data': 3, 'max_add': 2, 'window': 16, 'shapes': SHAPES_Q, 'timeout': 900},
    'thorough': {'max_data': 3, 'max_add': 3, 'window': 16, 'shapes': SHAPES_T, 'timeout': 6 * 3600},
}
BX_CEX_BOUNDS = {'max_data': 3, 'max_add': 2, 'window': 12, 'shapes': '0:1,1:1,2:2,3:1,4:4,8:8', 'timeout': 900}


def run_unit(spec, tier):
    key = json.dumps(spec, sort_keys=True) + tier
    if key in _cache:
        return _cache[key]
    kind = spec['kind']
    if kind == 'verus':
        r = units.run_verus(spec['unit'])
    elif kind == 'bx':
        r = units.run_bx(spec['name'], spec['strategy'], spec.get('bounds') or BX_BOUNDS[tier], tier)
    elif kind == 'bxr':
        r = units.run_bx_resolver(spec['name'])
    elif kind == 'bxv':
        r = units.run_bx_vec(spec['name'], 14 if tier == 'thorough' else 10)
    elif kind == 'gkn':
        r = units.run_gk_native(spec['name'])
    elif kind == 'bxd':
        r = units.run_bx_determinism(spec['name'], 6 if tier == 'thorough' else 5)
    elif kind == 'bxt':
        r = units.run_bx_types(spec['name'], 3)
    elif kind == 'bxc':
        r = units.run_bx_convert(spec['name'], 9 if tier == 'thorough' else 7)
    elif kind == 'bxh':
        r = units.run_bx_history(spec['name'], 8 if tier == 'thorough' else 6)
    elif kind == 'kani':
        import kani_units
        r = kani_units.run_kani(spec, tier)
    elif kind == 'callsites':
        import kani_units
        gk = run_unit(GK, tier)
        data = run_unit(K_DATA, tier)
        probes = {}
        for h, (ok, fcs) in (data.extra.get('probes') or {}).items():
            for prim in ('write', 'read', 'get_mut', 'get'):
                if h.endswith('probe_%s_on_bare_buffer' % prim):
                    probes[prim] = probes.get(prim, False) or (not ok)
        r = kani_units.run_callsites(spec, tier, probes)
    else:
        raise SystemExit('unknown unit kind %s' % kind)
    _cache[key] = r
    return r


# ------------------------------------------------------------------------------------------------
_BX_CLAUSES = {
    'C01': ('C01', 'wf.ordered', 'wf.distinct', 'wf.valid_ids', 'panic'),
    'C02': ('C02', 'wf.aligned', 'wf.ordered', 'panic'),
    'C03': ('frame',),
    'C12': ('members', 'wf.distinct'),
    'C13': ('panic', 'wf.ordered'),
}


# The generated-code properties quantify over "all definitions as in C01": their contracts take the layout
# invariant (disjoint, aligned, inside the capacity) as a precondition.  A unit listed for them with
# `dep: True` is a unit that establishes this precondition; its failures count for the dependent property
# when they count for one of the properties it depends on.
DEPENDS_ON = {'C04': ['C01', 'C02'], 'C05': ['C01', 'C02'], 'C06': ['C01', 'C02'], 'C07': ['C01', 'C02'], 'C15': ['C01', 'C02'], 'C16': ['C01', 'C02']}


def relevant(pid, spec, r, f):
    """is failure f of unit r a failure of property pid?"""
    if spec.get('dep'):
        base = dict(spec)
        base.pop('dep')
        return any(relevant(q, base, r, f) for q in DEPENDS_ON.get(pid, []))
    if f.get('props') is not None:
        return pid in f['props']
    if r.engine.startswith('bx'):
        want = _BX_CLAUSES.get(pid, ())
        return any(any(w in c for w in want) for c in f.get('clauses', [])) or \
            any(any(w in c for w in want) for c in f.get('confirmed', []))
    tags = [t for t in f.get('tags', []) if t.startswith('C')]
    if tags:
        return pid in tags
    fp = f.get('function_props') or []
    if fp:
        return pid in fp
    if f.get('props') is not None:
        return pid in f['props']
    if f.get("harness"):
        return ("::" + pid.lower() + "_") in f["harness"] or f["harness"].split("::")[-1].startswith(pid.lower() + "_") or pid in (spec.get("props") or [])
    only = spec.get("props")
    return (only is None) or (pid in only)


def rank(pid, f):
    """smaller = reported first: failures that name the property's own clause and were confirmed
    through ordinary requests, then smaller inputs"""
    if f.get('harness'):
        # cheapest failing harness first (its playback is the fastest to produce)
        order = ['units', 'pod', 'tokens', 'overaligned', 'large', 'boxes']
        fam = [i for i, n in enumerate(order) if ('::' + n + '::') in f['harness']]
        return (fam[0] if fam else 50, len(f['harness']))
    cl = ' '.join(f.get('confirmed') or []) + ' '.join(f.get('clauses') or [])
    own = 0 if (pid in cl or 'panic' in cl) else 1
    size = len(json.dumps(f.get('case', {})))
    return (own, size)


def failure_id(r, f):
    if f.get('harness'):
        return 'kani:%s' % f['harness']
    if r.engine.startswith('bx'):
        c = f.get('case', {})
        return 'bx:%s:%s' % (c.get('strategy'), json.dumps(c, sort_keys=True))
    return 'verus:%s:%s:%s' % (r.name, f.get('function'), f.get('message'))


def known_match(m, r, f):
    if 'id' in m:
        return f.get('id') == m['id']
    if 'harness' in m:
        return f.get('harness') == m['harness'] and (m.get('check') is None or m['check'] in (f.get('message') or ''))
    if 'callsite' in m:
        return f.get('callsite') == m['callsite']
    return False


def make_replay(pid, spec, r, f, tier):
    """returns (path, concrete_input_found)"""
    d = os.path.join(VERIF, 'replays')
    os.makedirs(d, exist_ok=True)
    stamp = time.strftime('%Y%m%d-%H%M%S')
    base = os.path.join(d, '%s-%s-%s-%d' % (pid, r.name, stamp, len(os.listdir(d))))
    if f.get('resolver_case') is not None:
        path = base + '.json'
        json.dump({'kind': 'bx-resolver', 'property': pid, 'clauses': f['clauses'], 'unit': r.name,
                   'how': './check --replay <this file>: re-runs the entry points under the synthetic resolver against /repo through the public API'}, open(path, 'w'), indent=1)
        return path, True
    if f.get('gk_compile') is not None:
        path = base + '.json'
        json.dump({'kind': 'gk-compile', 'property': pid, 'case': f['gk_compile'], 'clauses': f['clauses'], 'unit': r.name,
                   'how': './check --replay <this file>: regenerates the corpus modules with /repo\'s generator and compiles them'}, open(path, 'w'), indent=1)
        return path, True
    if f.get('vec_case') is not None:
        path = base + '.json'
        json.dump({'kind': 'bx-vec', 'property': pid, 'case': f['vec_case'], 'clauses': f['clauses'], 'unit': r.name,
                   'how': './check --replay <this file>: executes this one case natively against /repo\'s try_convert_vec_in_place'}, open(path, 'w'), indent=1)
        return path, True
    if f.get('native_harness') is not None:
        path = base + '.json'
        json.dump({'kind': 'gk-native', 'property': pid, 'harness': f['native_harness'], 'clauses': f['clauses'], 'unit': r.name,
                   'how': './check --replay <this file>: regenerates the corpus from /repo and runs this one native harness (a concrete execution of the generated code)'}, open(path, 'w'), indent=1)
        return path, True
    if f.get('det_case') is not None:
        path = base + '.json'
        json.dump({'kind': 'bx-determinism', 'property': pid, 'case': f['det_case'], 'clauses': f['clauses'], 'unit': r.name, 'tier': tier,
                   'how': './check --replay <this file>: re-runs the two processes against /repo and compares their digests'}, open(path, 'w'), indent=1)
        return path, True
    if f.get('types_case') is not None:
        path = base + '.json'
        json.dump({'kind': 'bx-types', 'property': pid, 'clauses': f['types_case'], 'unit': r.name,
                   'how': './check --replay <this file>: re-runs the type grammar against /repo (the failing types are named in clauses)'}, open(path, 'w'), indent=1)
        return path, True
    if f.get('convert_case') is not None:
        path = base + '.json'
        json.dump({'kind': 'bx-convert', 'property': pid, 'history': f['convert_case']['history'], 'target': f['convert_case']['target'],
                   'clauses': f['clauses'], 'unit': r.name,
                   'how': './check --replay <this file>: rebuilds the source definition from the request sequence and replays it through convert_record_definition'},
                  open(path, 'w'), indent=1)
        return path, True
    if f.get('history') is not None:
        path = base + '.json'
        json.dump({'kind': 'bx-builder', 'property': pid, 'history': f['history'], 'clauses': f['clauses'], 'unit': r.name,
                   'how': './check --replay <this file>: re-runs the request sequence against /repo through the public API'}, open(path, 'w'), indent=1)
        return path, True
    if r.engine.startswith('bx'):
        path = base + '.json'
        json.dump({'kind': 'bx-case', 'property': pid, 'case': f['case'], 'clauses': f['clauses'],
                   'confirmed_through_public_api': f.get('confirmed'), 'unit': r.name,
                   'how': './check --replay <this file>  (rebuilds bx against /repo and replays the case through ordinary builder requests)'},
                  open(path, 'w'), indent=1)
        return path, True
    if r.engine.startswith('kani') or f.get('harness'):
        import kani_units
        return kani_units.make_replay(pid, spec, r, f, base)
    # Verus: look for a concrete input with bx when the failed obligation is a layout function
    if spec.get('cex') == 'bx-layout':
        cr = run_unit({'kind': 'bx', 'name': 'cex-layout', 'strategy': 'all', 'bounds': BX_CEX_BOUNDS}, 'quick')
        if cr.status == VIOLATION:
            for cf in cr.failures:
                if relevant(pid, spec, cr, cf):
                    path = base + '.json'
                    json.dump({'kind': 'bx-case', 'property': pid, 'case': cf['case'], 'clauses': cf['clauses'],
                               'confirmed_through_public_api': cf.get('confirmed'),
                               'obligation': _ob(r, f), 'verifier_output': r.raw[-8000:], 'unit': r.name},
                              open(path, 'w'), indent=1)
                    return path, True
    if spec.get('cex') in ('bx-builder', 'bx-resolver'):
        exe, err = units.build_bx()
        if exe:
            cmd = [exe, 'builder-history', '--max-len', '6'] if spec['cex'] == 'bx-builder' else [exe, 'resolver']
            rc, out, err2, wall, to = units._sh(cmd, 600)
            try:
                j = json.loads(out[:out.rindex('}') + 1]) if spec['cex'] == 'bx-builder' else json.loads(out[:out.index('\n}') + 2])
            except Exception:
                j = {}
            v = j.get('violation') if spec['cex'] == 'bx-builder' else (j.get('violations') or None)
            if v:
                path = base + '.json'
                json.dump({'kind': spec['cex'], 'property': pid, 'history': v.get('history') if isinstance(v, dict) else None,
                           'clauses': v.get('clauses') if isinstance(v, dict) else v, 'obligation': _ob(r, f),
                           'verifier_output': r.raw[-8000:], 'unit': r.name,
                           'how': './check --replay <this file>: re-runs the concrete request sequence / the synthetic-resolver probe against /repo through the public API'},
                          open(path, 'w'), indent=1)
                return path, True
    path = base + '.json'
    json.dump({'kind': 'obligation', 'property': pid, 'obligation': _ob(r, f), 'verifier_output': r.raw[-12000:],
               'unit_spec': spec, 'tier': tier, 'note': 'no-failing-input-found'}, open(path, 'w'), indent=1)
    return path, False


def _ob(r, f):
    return {k: f.get(k) for k in ('function', 'message', 'repo_file', 'repo_line', 'out_line', 'text', 'tags', 'harness')} | {'unit': r.name}


def replay_kani(j):
    import kani_units
    return kani_units.replay(j)


# ------------------------------------------------------------------------------------------------
V_LAYOUT = {'kind': 'verus', 'unit': 'layout', 'cex': 'bx-layout'}
BX_SIMPLE = {'kind': 'bx', 'name': 'simple', 'strategy': 'simple'}
# thorough tier: four differently shaped bounds (more data / more additions / wider window)
BX_THOROUGH = [
    {'kind': 'bx', 'name': 'simple-4data', 'strategy': 'simple',
     'bounds': {'max_data': 4, 'max_add': 2, 'window': 16, 'shapes': '0:1,1:1,2:2,3:1,4:4,8:8', 'timeout': 3600}},
    {'kind': 'bx', 'name': 'simple-3adds', 'strategy': 'simple',
     'bounds': {'max_data': 3, 'max_add': 3, 'window': 16, 'shapes': SHAPES_Q, 'timeout': 3600}},
    {'kind': 'bx', 'name': 'simple-wide', 'strategy': 'simple',
     'bounds': {'max_data': 3, 'max_add': 2, 'window': 32, 'shapes': '0:1,1:1,2:2,4:4,8:8,16:16,24:8', 'timeout': 3600}},
    {'kind': 'bx', 'name': 'simple-4data-3adds', 'strategy': 'simple',
     'bounds': {'max_data': 4, 'max_add': 3, 'window': 12, 'shapes': '0:1,1:1,2:2,4:4', 'timeout': 3600}},
]


def bx_units(tier):
    # the 4-data / 3-additions sweep is cheap (about 25 s) and is the only one of the extra sweeps
    # that sees bugs needing three additions in one close: it runs in the quick tier too
    return [BX_SIMPLE] + (BX_THOROUGH if tier == 'thorough' else [BX_THOROUGH[3]])

LAYOUT_ASSUME = [
    'simple() and compute_initial_gaps() are outside both verifiers (BTreeMap entry API, stateful filter_map closure, '
    'moved-closure fold): covered only by the bounded-exhaustive stand-in bx, never counted as proved',
]

PROPERTIES = {
    'C01': {
        'level': 'model_checking',
        'units': lambda tier: [V_LAYOUT] + bx_units(tier),
        'explanation': 'Verus proves, on text extracted from /repo on this run, that align_bytes, end, push_datum, remove_data, append_data, '
                       'append_data_reverse and basic map every WF variant list to a WF list (address order incl. zero-size data => '
                       'pairwise disjoint byte ranges, lemma_wf_implies_disjoint), and that fit_datum_to_gap / select_start_or_end_of_gap return '
                       'placements inside the gap, aligned, with exact remainders. The main body of simple() is executed natively on every pre-state '
                       'inside the stated bound against the same contract (bounded, not proved).',
        'rule': 'bx: every WF pre-state within the window x every removal subset x every sequence of additions; non-trivial = a '
                'datum survives and an added datum was placed below the previous end',
        'assumptions': LAYOUT_ASSUME,
        'unchecked': ['history induction is the standard invariant argument (close passes previous list minus removals to the strategy); '
                      'its builder half is unit `builder` (C12)'],
    },
}

RT = {'kind': 'kani', 'crate': 'runtime', 'repo_crates': ['truc_runtime'], 'flags': ['--cbmc-args', '--memory-leak-check'],
      'assumptions': ['catch_unwind is stubbed by "call the closure, wrap in Ok" (the Kani compiler crashes on the real one and Kani '
                      'does not unwind): the panic arm of try_convert_vec_in_place is unreachable in these harnesses']}
RT_BOUND = 'BOUNDED: vector length <= 4 (<= 3 for boxed, large and over-aligned elements); element families: u32->i32, drop-counted 1-byte tokens, Box-owning values, (), [u64;4]->[i64;4], repr(align(16)) pair'
def rt_n(tier):
    return {'VERIF_CONVERT_N': '8' if tier == 'thorough' else '4'}


K_C08 = dict(RT, name='kani-convert-c08', harnesses=['c08_'], bounded=RT_BOUND, min_harnesses=7,
             functions=['truc_runtime/src/convert.rs try_convert_vec_in_place', 'truc_runtime/src/convert.rs convert_vec_in_place'])
K_C09 = dict(RT, name='kani-convert-c09', harnesses=['c09_'], bounded=RT_BOUND, min_harnesses=6,
             functions=['truc_runtime/src/convert.rs try_convert_vec_in_place (error-return arm, cleanup closure)'])
K_C10 = dict(RT, name='kani-convert-c10', harnesses=['c10_'], flags=[], min_harnesses=13,
             expect={'c10_size': {'must_fail_only': ['size_of {} vs {}'], 'covers_sat': 0},
                     'c10_zst_': {'must_fail_only': ['size_of {} vs {}'], 'covers_sat': 0},
                     'c10_align': {'must_fail_only': ['align_of {} vs {}'], 'covers_sat': 0}},
             bounded='BOUNDED in the type matrix only (8 pairs, vector lengths 0 and 2 as separate harnesses); per pair complete: the refusal precedes every loop',
             functions=['truc_runtime/src/convert.rs try_convert_vec_in_place (the two layout assertions)'])
K_DATA = dict(RT, name='kani-data-primitives', harnesses=['data::'], flags=[], min_harnesses=6,
              expect={'probe_': {'probe': True}, 'control_oob': {'must_fail_with': 'pointer outside object bounds'}},
              functions=['truc_runtime/src/data.rs RecordMaybeUninit::read', 'truc_runtime/src/data.rs RecordMaybeUninit::write',
                         'truc_runtime/src/data.rs RecordMaybeUninit::get', 'truc_runtime/src/data.rs RecordMaybeUninit::get_mut'],
              assumptions=['std::ptr::read/write are replaced by wrappers that assert std\'s documented alignment precondition and move the bytes '
                           'one by one (CBMC aligns every object, Kani does not check raw-pointer alignment)'])

PROPERTIES['C08'] = {
    'level': 'model_checking',
    'units': lambda tier: [dict(K_C08, env=rt_n(tier), bounded=RT_BOUND.replace('<= 4 (<= 3', '<= %s (<= %d' % (rt_n(tier)['VERIF_CONVERT_N'], int(rt_n(tier)['VERIF_CONVERT_N']) - 1))), BXV],
    'explanation': 'Contract of try_convert_vec_in_place / convert_vec_in_place checked by Kani on the real function with a specification '
                   'converter (asserts: called once per element, in order, with the most recent output; may modify it) and symbolic '
                   'keep/abandon/modify pattern: result = produced values in order, same allocation, same capacity, no leak.',
    'unchecked': ['lengths > 4 (Kani; the native stand-in convert-failing-converter re-checks result contents, order and the previous-output argument for every converted/abandoned pattern up to length 10, thorough 14, in an optimised build)',
                  'compiled-with-optimisation clause: Kani sees MIR semantics only; the native stand-in runs an optimised build, which is an observation within its bound, not a proof'],
}
BXV = {'kind': 'bxv', 'name': 'convert-failing-converter'}
PROPERTIES['C09'] = {
    'level': 'model_checking',
    'units': lambda tier: [dict(K_C09, env=rt_n(tier), bounded=RT_BOUND.replace('<= 4 (<= 3', '<= %s (<= %d' % (rt_n(tier)['VERIF_CONVERT_N'], int(rt_n(tier)['VERIF_CONVERT_N']) - 1))), BXV],
    'explanation': 'Error-return arm: failure at a symbolic position after a symbolic keep/abandon/modify prefix; every input and every '
                   'produced output dropped exactly once (ghost drop counters), converter not called again, same error value, allocation '
                   'released (CBMC memory-leak check). Panic half: Kani has no unwinding, so no obligation can express it; the bounded stand-in '
                   'convert-failing-converter executes the real function natively for every length <= 10 (thorough 14), failure position, preceding pattern, '
                   'failure kind (error, panic) and phase (at once, after dropping the input, after building the output) over four element families and checks '
                   'the drop ledger, the call counter, a counting allocator and the identity of the error value / panic payload.',
    'unchecked': ['panic half of the property: covered only by the native bounded stand-in (not a deductive obligation)'],
}
PROPERTIES['C10'] = {
    'level': 'model_checking',
    'units': lambda tier: [K_C10, BXV],
    'explanation': 'Per mismatching type pair the harness must fail with exactly the size (or alignment) assertion of the real function and '
                   'the cover inside the converter must be unsatisfiable; matching pairs are the C08 harnesses (assertions pass, covers reachable).',
    'unchecked': ['"dropped normally after the panic": Kani stops at the panic; what it checks is that the point where the vector is taken out of the drop machinery (ManuallyDrop::new, marked by a cfg(kani) cover) is unreachable before the refusal. '
                  'The bounded stand-in convert-failing-converter additionally executes seven mismatching pairs natively for every length <= 10 and checks the refusal, zero converter calls, each input dropped exactly once, no heap left'],
}

V_BUILDER = {'kind': 'verus', 'unit': 'builder', 'cex': 'bx-builder'}
V_NATIVE = {'kind': 'verus', 'unit': 'native', 'cex': 'bx-resolver'}
V_GENERIC = {'kind': 'verus', 'unit': 'generic', 'cex': 'bx-builder'}

PROPERTIES['C12'] = {
    'level': 'model_checking',
    'units': lambda tier: [V_BUILDER, V_LAYOUT, BX_SIMPLE],
    'explanation': 'Builder invariant (ids are indices of an append-only collection, pending additions occur in no closed variant, pending '
                   'removals are distinct members of the last variant) preserved by push / add_datum / remove_datum / close_record_variant_with / '
                   'build, each extracted from /repo and verified by Verus; rejected requests leave the state equal (frame); close with nothing '
                   'pending returns the last id and changes nothing; the membership equation is the `members` clause of the strategy contract.',
    'unchecked': ['name lookup get_current_datum_definition_by_name / get_current_data / get_variant_datum_definition_by_name (iterator chains): '
                  'assumed contract in Verus; Kani harnesses on them are kept under kani/builder but exceed the time box (15 GB, > 20 min) and are not part of the check',
                  'native builder operations are one-line delegations to the generic builder (not extracted)'],
}
K_C18 = {'kind': 'kani', 'crate': 'builder', 'name': 'kani-add-dynamic-datum', 'repo_crates': ['truc'], 'flags': [], 'harnesses': ['c18_'], 'min_harnesses': 2,
         'env': {'VERIF_KANI_DIR': os.path.join(VERIF, 'kani', 'incrate')}, 'extra_inputs': [os.path.join(VERIF, 'kani', 'incrate')], 'timeout': 2400,
         'bounded': 'BOUNDED in the builder state only (first and second request on a fresh native builder); the resolver\'s answers (size, alignment, flag for two type names) are fully symbolic and the harnesses are loop-free in them',
         'functions': ['truc/src/record/definition/builder/native/mod.rs NativeRecordDefinitionBuilder::add_dynamic_datum'],
         'assumptions': ['alloc::fmt::format is stubbed by an empty string (error text is not part of the property; formatting dominates CBMC cost)']}
PROPERTIES['C18'] = {
    'level': 'proof',
    'units': lambda tier: [V_NATIVE, K_C18, {'kind': 'bxr', 'name': 'resolver-standin'}],
    'explanation': 'For add_datum, add_datum_allow_uninit, add_datum_override and copy_datum (extracted from /repo) Verus proves that the details '
                   'handed to the inner builder are exactly the abstract resolver\'s answer (overrides applied field-wise; offset = usize::MAX): a body '
                   'consulting the host\'s size_of/align_of fails the postcondition. The strategies read only recorded size/align (unit layout).',
    'unchecked': ['second sentence of the property (type table answers what was registered, agrees with host, JSON round trip): BTreeMap<String,_> + serde_json, outside both verifiers',
                  'add_dynamic_datum: AsRef<str> bound cannot be declared to this Verus; it is under a Kani harness-level contract instead (unit kani-add-dynamic-datum: recorded size / alignment / flag = the resolver\'s answer for the requested name, fully symbolic answers), bounded to the first two requests on a fresh builder and not counted among the proved obligations'],
}

GK = {'kind': 'kani', 'name': 'gk-corpus', 'crate': 'gk', 'repo_crates': ['truc', 'truc_runtime'], 'harnesses': ['::h::'],
      'flags': ['--cbmc-args', '--memory-leak-check'], 'tier_env': 'GK_TIER', 'env': {'GK_DUMP_DIR': os.path.join(BUILD, 'gk-gen'), 'GK_SEED': str(int(os.environ.get('VERIF_SEED', '0') or 0))},
      'expect': {'.': {'covers': 'any'}}, 'min_harnesses': 40, 'timeout': 6000,
      'functions': ['generated new / new_uninit / unpack / accessors / Drop / 4 x From / clone / clone_from of every corpus module (emitted by truc::generator::generate on this run)'],
      'assumptions': ['corpus of definitions (quick: 9 fixed + 2 random modules drawn from VERIF_SEED; thorough: 13 fixed + 12 random): the "all generated modules" quantifier is sampled; the generator itself (codegen, format!, itertools) is outside both verifiers',
                      'per module each harness is straight-line over full-domain symbolic field values: complete for that module']}
CALLSITES = {'kind': 'callsites', 'name': 'c07-callsites'}

GK_EXPL = ('Real modules emitted by the real generator for a corpus of definitions built through the real builder; Kani harnesses derived from the '
           'definitions (not from the emitted text) state the contract of each generated function with symbolic field values: ')
PROPERTIES['C04'] = {
    'level': 'model_checking', 'units': lambda tier: [GK],
    'explanation': GK_EXPL + 'new(u).f()==u.f, write through f_mut changes f only, unpack returns the current values, new_uninit keeps mandatory fields and accepts later writes; stack, Box and Vec placements; capacity = published and larger.',
    'unchecked': ['"compiled with optimisation" clause: Kani checks MIR semantics without an aliasing model (the store primitive derived its pointer from a shared reborrow; shown with Miri and repaired, see known_findings.json)'],
}
PROPERTIES['C05'] = {
    'level': 'model_checking', 'units': lambda tier: [GK],
    'explanation': GK_EXPL + 'for every adjacent pair and each of the four From forms carried fields keep their value, added fields get the supplied value, returned removed fields carry their old value; plus a chain from the first to the last variant.',
    'unchecked': ['compiled-with-optimisation clause'],
}
PROPERTIES['C06'] = {
    'level': 'model_checking', 'units': lambda tier: [GK], 'all_harnesses_count_for': ['C06'],
    'explanation': GK_EXPL + 'ghost drop counters on token-typed fields (== 1 at end of life, == 0 while handed back / carried), CBMC double-free and memory-leak checks on Box fields, over construct / mutate / convert (4 forms) / unpack / clone / clone_from / drop.',
    'unchecked': ['compiled-with-optimisation clause'],
}
PROPERTIES['C07'] = {
    'level': 'model_checking', 'units': lambda tier: [GK, K_DATA, CALLSITES], 'all_harnesses_count_for': ['C07'],
    'explanation': 'In-capacity / typed / not-moved-out: CBMC pointer checks on every corpus harness. Alignment: contract of read/write/get/get_mut checked with the record placed at a symbolic slot of an aligned arena and ptr::read/write replaced by alignment-asserting wrappers; probes on a bare (align 1) buffer decide which primitives require an aligned receiver; every call site of the emitted modules is classified by receiver (bare local vs field of the repr(align) record).',
    'unchecked': ['stack placement of locals is not observable in CBMC (every object is aligned): the bare-buffer clause is decided by probe + call-site classification, which is type-directed'],
}


PROPERTIES['C17'] = {
    'level': 'model_checking', 'units': lambda tier: [{'kind': 'bxt', 'name': 'types-standin'}],
    'explanation': 'The type-name pipeline (std::any::type_name -> syn::parse_str -> path rewriting visitor -> quote -> to_string) and the table lookup keyed by its output '
                   'are outside both verifiers (no Verus model of syn / quote / strings; a recursive-descent parser over symbolic strings is far beyond what CBMC finished here). '
                   'As the brief allows for functions out of reach, a bounded check stands in: for every type of a grammar up to nesting depth 3 (2400 distinct types) the '
                   'recorded name must equal, up to whitespace, the source tokens that denote the type (stringify! of the very tokens used as the generic argument: the same '
                   'type by construction, judged by rustc when bx is compiled), and a type table must answer under the short, spaced, whitespace-free, fully qualified and '
                   'recorded spellings alike. BOUNDED, never counted as proved.',
    'unchecked': ['types of the user\'s crates (their compiler name depends on the crate they are compiled in)', 'slices behind Box are covered as Box<[_]>; references, fn pointers, dyn types are outside the grammar',
                  'no deductive obligation is generated for this property'],
}
PROPERTIES['C19'] = {
    'level': 'model_checking', 'units': lambda tier: [{'kind': 'bxd', 'name': 'determinism-standin'}],
    'explanation': 'Determinism relates two executions; a contract can express it only as result = F(inputs) with F a spec function, and no such specification of '
                   'simple() or generate() (string emission through codegen / format! / itertools) is within reach of either verifier. As the brief allows for functions '
                   'out of reach, a bounded check stands in: every definition history within the bound is replayed twice in one process (fresh builders) and its offsets, '
                   'text rendering and generated code under three fragment selections must be identical; the digest over everything is compared between two separately '
                   'started processes. BOUNDED, never counted as proved. (The functions with exact postconditions in unit layout / generic - align_bytes, end, push_datum, '
                   'the generic append strategies - are deterministic as a corollary of their contracts.)',
    'unchecked': ['histories, shapes and fragment selections beyond the bound', 'processes on other machines / toolchains', 'no deductive obligation is generated for this property'],
}
PROPERTIES['C20'] = {
    'level': 'model_checking', 'units': lambda tier: [{'kind': 'bxc', 'name': 'convert-standin'}],
    'explanation': 'convert_record_definition cannot be brought within reach of either verifier (closure parameters over a caller-chosen context, impl-Iterator returns, '
                   'retain with closures, two BTreeMaps: Verus rejects it; two Kani probes of 10 and 7 minutes did not terminate). As the brief allows for such a function, a '
                   'bounded check stands in: the real helper is executed natively on every source definition within the stated bound, replayed into a native builder under '
                   'two strategies and into a generic builder, against its postcondition (one target variant per source variant, the map pairs them injectively, paired '
                   'variants hold data with the same names and type information, every source datum corresponds to one target datum across all the variants it spans). '
                   'BOUNDED, never counted as proved.',
    'unchecked': ['source definitions beyond the bound (longer histories, other shapes, append strategies as source strategies)', 'no deductive obligation is generated for this property'],
}
PROPERTIES['C15'] = {
    'level': 'model_checking', 'units': lambda tier: [GK],
    'explanation': GK_EXPL + 'with the serialization fragment enabled, the generated Serialize impl emits a tuple of exactly the variant\'s fields in declaration order, '
                   'the generated Deserialize impl gives back equal fields, and input with too few elements, an undecodable element, or (self-describing) too many '
                   'elements is rejected with an error and leaks nothing already decoded (ghost drop counters). The format is an in-harness implementation of serde\'s '
                   'data model (gk/src/tokfmt.rs), self-describing or not by a symbolic flag.',
    'unchecked': ['serde_json and bincode themselves (string / number code outside both verifiers): the property\'s "JSON and bincode encodings" are replaced by the in-harness format',
                  'field types of the serde modules are limited to u8/u16/u32/u64 and a droppable user type',
                  'one corpus module carries the fragment (three variants incl. an empty-of-droppables one)'],
}
GKN = {'kind': 'gkn', 'name': 'gk-native-panics'}
PROPERTIES['C16'] = {
    'level': 'model_checking', 'units': lambda tier: [GK, GKN],
    'explanation': GK_EXPL + 'clone has equal fields, mutating or dropping either side leaves the other intact, clone_from makes the target equal and destroys its previous contents exactly once. '
                   'Panic clause: Kani does not unwind, so no obligation can express it; bounded stand-in gk-native-panics executes the real generated clone / clone_from natively with a panic '
                   'injected into the j-th clone of a droppable field, for every j, and checks the ghost drop ledger (nothing leaked, nothing destroyed twice, source intact).',
    'unchecked': ['"a panic inside a field\'s clone leaks or double-drops nothing" is covered only by the native bounded stand-in (fixed field values, corpus modules); it is not a deductive obligation'],
}

INCRATE = {'kind': 'kani', 'crate': 'incrate', 'repo_crates': ['truc', 'truc_runtime'], 'flags': [],
           'env': {'VERIF_KANI_DIR': os.path.join(VERIF, 'kani', 'incrate')}, 'timeout': 2400}
K_DEF = dict(INCRATE, name='kani-definition', harnesses=['definition::verif_kani'], min_harnesses=5,
             bounded='BOUNDED: definitions of <= 3 data in two variants (symbolic offsets <= 2^40, sizes <= 2^20, power-of-two alignments <= 16, third datum optionally added-and-removed-before-close, second variant a symbolic subset); remove_data on lists <= 4 with <= 3 removals',
             functions=['truc/src/record/definition/mod.rs RecordDefinition::max_size', 'truc/src/record/definition/mod.rs RecordDefinition::max_type_align',
                        'truc/src/record/definition/builder/native/variant/mod.rs <Vec<DatumId> as NativeDataUpdater>::remove_data'])
K_B5 = dict(INCRATE, name='kani-builder-lookup', harnesses=['generic::verif_kani'], min_harnesses=4,
            bounded='BOUNDED: last variant [a, b], optional pending removal of each, optional pending addition c; names from {a,b,c,d}; one operation per harness on a state written as a struct literal',
            functions=['truc/src/record/definition/builder/generic/mod.rs get_current_data', 'truc/src/record/definition/builder/generic/mod.rs get_current_datum_definition_by_name',
                       'truc/src/record/definition/builder/generic/mod.rs get_variant_datum_definition_by_name', 'truc/src/record/definition/builder/generic/mod.rs add_datum (duplicate-name check)'],
            assumptions=['alloc::fmt::format is stubbed by an empty string (error text is not part of the property; formatting dominates CBMC cost)'])

def k_simple(tier):
    hs = ['l7_select_best', 'l7_c01_c02_select_start', 'gaps_are_the_holes_n2'] + (['gaps_are_the_holes_n3'] if tier == 'thorough' else [])
    return dict(INCRATE, name='kani-simple-leaves', harnesses=hs, min_harnesses=3,
                bounded='BOUNDED (except select_best, which is complete: full usize domain, 64-shift loop unwound with unwinding assertions): '
                        'select_start_or_end_of_gap on values < 2^16 and power-of-two alignments <= 16; compute_initial_gaps on lists of <= %d data' % (3 if tier == 'thorough' else 2),
                functions=['truc/src/record/definition/builder/native/variant/simple.rs select_best', 'truc/src/record/definition/builder/native/variant/simple.rs select_start_or_end_of_gap',
                           'truc/src/record/definition/builder/native/variant/simple.rs compute_initial_gaps'])


PROPERTIES['C13'] = {
    'level': 'model_checking',
    'units': lambda tier: [V_NATIVE, K_DEF, V_LAYOUT] + bx_units(tier) + [GK],
    'explanation': 'Display: fmt_variant_representation (extracted, write! statements dropped) is proved panic-free by Verus for every variant list in address order, '
                   'which the strategy contracts establish (Verus for append/basic, bounded for simple). max_size / max_type_align: Kani, no panic on any '
                   'state the builder can leave (incl. data added and removed before close).',
    'unchecked': ['generate() itself (string emission through codegen/format!) and "the generated module compiles with any fragment selection" are outside both verifiers. Bounded observation only: every corpus module '
                  '(fragment selections none / clone / serde / clone+serde) is emitted by /repo\'s generator on this run and compiled; a compile error located in an emitted module is reported as a C13 violation '
                  'with the definition that triggers it'],
}

PROPERTIES['C01']['units'] = lambda tier: [V_LAYOUT] + bx_units(tier) + [k_simple(tier), K_DEF, V_BUILDER]
PROPERTIES['C02'] = dict(PROPERTIES['C01'])
PROPERTIES['C02']['units'] = lambda tier: [V_LAYOUT] + bx_units(tier) + [k_simple(tier), K_DEF, GK]
PROPERTIES['C02']['explanation'] = ('Alignment and address order are clauses of the variant invariant WF proved (Verus) for align_bytes, end, push_datum, append_data, '
    'append_data_reverse, basic on text extracted from /repo; simple() bounded. Capacity and record alignment: Kani contract of max_size / max_type_align '
    '(every datum of a variant ends at or before max_size, max_type_align is a multiple of its alignment). Published constants: corpus harnesses assert '
    'MAX_SIZE == capacity of the definition, align_of::<RecordK>() == its alignment, every field offset/size inside.')
PROPERTIES['C03'] = dict(PROPERTIES['C01'])
PROPERTIES['C03']['units'] = lambda tier: [V_LAYOUT] + bx_units(tier) + [K_DEF, V_BUILDER, V_GENERIC, GK]
PROPERTIES['C03']['explanation'] = ('First sentence = frame clause of the strategy contract (only offsets of data_to_add change; Verus for append/basic/push_datum, bounded for '
    'simple) + close_record_variant_with leaves earlier variants untouched and add_datum only appends (Verus, unit builder). Second sentence: corpus harnesses '
    'assert equal size_of / align_of of all CappedRecordK<CAP> for CAP = MAX_SIZE, MAX_SIZE+1, 2*MAX_SIZE+3.')
PROPERTIES['C03']['unchecked'] = ['"a repr(align(N)) struct of one [u8; CAP] has size roundup(CAP, N)" is Rust\'s layout rule: evaluated by the compiler for the corpus instances, assumed in general']
BXH = {'kind': 'bxh', 'name': 'builder-history'}
PROPERTIES['C12']['units'] = lambda tier: [V_BUILDER, V_GENERIC, V_NATIVE, K_B5, BXH, V_LAYOUT] + bx_units(tier) + [K_DEF]
PROPERTIES['C12']['unchecked'] = ['native builder: remove_datum and build are extracted and proved to delegate (unit native); close_record_variant(_with) and the lookups are one-line delegations that are not extracted',
                                  'name lookups are checked by Kani on a bounded family of states only (unit kani-builder-lookup); Verus uses their contract as an assumption']


def layout_deps(tier):
    """the units that establish the layout precondition of the generated-code properties (see DEPENDS_ON)"""
    return [dict(u, dep=True) for u in [V_LAYOUT] + bx_units(tier) + [k_simple(tier), K_DEF]]


DEP_NOTE = (' The contracts of the generated code take the layout invariant of the definition (fields disjoint, aligned, inside the published capacity) as a precondition; '
            'the units that establish it (layout, simple stand-in, kani-simple-leaves, kani-definition: see C01/C02) are run here too and a failed layout obligation is reported for this property as well.')
for _p in ('C04', 'C05', 'C06', 'C07', 'C15', 'C16'):
    PROPERTIES[_p]['explanation'] += DEP_NOTE
PROPERTIES['C04']['units'] = lambda tier: [GK] + layout_deps(tier)
PROPERTIES['C05']['units'] = lambda tier: [GK] + layout_deps(tier)
PROPERTIES['C06']['units'] = lambda tier: [GK] + layout_deps(tier)
PROPERTIES['C07']['units'] = lambda tier: [GK, K_DATA, CALLSITES] + layout_deps(tier)
PROPERTIES['C15']['units'] = lambda tier: [GK] + layout_deps(tier)
PROPERTIES['C16']['units'] = lambda tier: [GK, GKN] + layout_deps(tier)


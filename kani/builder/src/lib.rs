//! Kani harnesses on the real `truc` crate of /repo (public API only).
#![allow(dead_code)]
#[cfg(kani)]
mod builder;
#[cfg(kani)]
#[cfg(test)]
mod playback_generated;

//! Kani harnesses on the real `truc_runtime` crate of /repo (public API only, no hook needed).
#![allow(dead_code, static_mut_refs, clippy::all)]

#[cfg(kani)]
mod convert;
#[cfg(kani)]
mod data;
#[cfg(kani)]
#[cfg(test)]
mod playback_generated;

#[cfg(kani)]
mod verif_kani {
    use super::*;

    #[kani::proof]
    fn data_write_read_unaligned_buffer() {
        let mut r = RecordMaybeUninit::<8>::new();
        let v: u32 = kani::any();
        unsafe { r.write::<u32>(4, v); }
        assert!(unsafe { *r.get::<u32>(4) } == v);
    }

    #[repr(align(4))]
    struct Al { data: RecordMaybeUninit<8> }

    #[kani::proof]
    fn data_write_read_aligned_buffer() {
        let mut r = Al { data: RecordMaybeUninit::<8>::new() };
        let v: u32 = kani::any();
        unsafe { r.data.write::<u32>(4, v); }
        assert!(unsafe { *r.data.get::<u32>(4) } == v);
    }

    #[kani::proof]
    fn data_write_read_odd_offset() {
        let mut r = Al { data: RecordMaybeUninit::<8>::new() };
        let v: u32 = kani::any();
        unsafe { r.data.write::<u32>(1, v); }
        assert!(unsafe { *r.data.get::<u32>(1) } == v);
    }

    #[kani::proof]
    fn data_oob() {
        let mut r = Al { data: RecordMaybeUninit::<8>::new() };
        let v: u32 = kani::any();
        unsafe { r.data.write::<u32>(6, v); }
    }
}

#!/usr/bin/env python3
"""notes/mutation_probe.md from build/mutants/{survivors,results}.json (see lib/mutate.py)"""
import json, os, sys
d = sys.argv[1] if len(sys.argv) > 1 else '/verif/build/mutants'
s = json.load(open(os.path.join(d, 'survivors.json')))
r = json.load(open(os.path.join(d, 'results.json'))) if os.path.exists(os.path.join(d, 'results.json')) else {}
notes = json.load(open('/verif/notes/mutation_notes.json')) if os.path.exists('/verif/notes/mutation_notes.json') else {}
out = ['# Mutation probe of the checks (lib/mutate.py)', '',
       'Token-level mutants of the non-test code of the files the properties are anchored in.',
       '', '* mutation sites: %d' % s['sites'], '* do not compile: %d' % s['compile_error'],
       '* killed by the existing suite: %d' % s['suite_fails'], '* survive the suite: %d' % len(s['survivors']),
       '* of those, run through the quick checks so far: %d' % len(r), '']
cnt = {}
for v in r.values():
    cnt[v['verdict']] = cnt.get(v['verdict'], 0) + 1
out.append('Verdicts: ' + ', '.join('%s: %d' % kv for kv in sorted(cnt.items())))
out += ['', '| mutant | place | change | verdict | reported by / remark |', '|---|---|---|---|---|']
for sv in s['survivors']:
    v = r.get(sv['id'])
    if not v:
        out.append('| %s | %s:%d | %s | not run | %s |' % (sv['id'], sv['file'].split('/')[-1], sv['line'], sv['what'].replace('|', '\\|')[:70], notes.get(sv['id'], '')))
        continue
    by = '; '.join('%s: %s' % (b['property'], ', '.join(u.replace('unit ', '').replace(' VIOLATION', '').split()[0] for u in b.get('units', [])) or 'inconclusive') for b in v.get('by', []))
    rem = notes.get(sv['id'], '')
    out.append('| %s | %s:%d | %s | %s | %s |' % (sv['id'], sv['file'].split('/')[-1], sv['line'], sv['what'].replace('|', '\\|')[:70], v['verdict'], (by + (' — ' if by and rem else '') + rem)))
open('/verif/notes/mutation_probe.md', 'w').write('\n'.join(out) + '\n')
print('\n'.join(out[:12]))

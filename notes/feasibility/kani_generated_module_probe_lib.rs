#[macro_use]
extern crate static_assertions;

#[allow(dead_code)]
pub mod truc {
    include!(concat!(env!("OUT_DIR"), "/gen.rs"));
}

#[cfg(kani)]
mod h {
    use crate::truc::*;
    #[kani::proof]
    fn roundtrip() {
        let a: u32 = kani::any(); let bv: u16 = kani::any(); let c: u8 = kani::any();
        let mut r0 = Record0::new(UnpackedRecord0 { a, b: Box::new(bv), c });
        assert!(*r0.a() == a && **r0.b() == bv && *r0.c() == c);
        let a2: u32 = kani::any();
        *r0.a_mut() = a2;
        assert!(*r0.a() == a2 && **r0.b() == bv && *r0.c() == c);
        let ev: u32 = kani::any(); let f: u16 = kani::any();
        let Record1AndUnpackedOut { record: r1, a: oa, b: ob } = Record1AndUnpackedOut::from((r0, UnpackedRecordIn1 { e: Box::new(ev), f }));
        assert!(oa == a2 && *ob == bv);
        assert!(*r1.c() == c && **r1.e() == ev && *r1.f() == f);
        let r1c = r1.clone();
        drop(r1);
        let UnpackedRecord1 { c: c1, e: e1, f: f1 } = r1c.unpack();
        assert!(c1 == c && *e1 == ev && f1 == f);
    }
}

#[cfg(kani)]
mod h2 {
    #[kani::proof]
    fn leaky() {
        let b = Box::new(kani::any::<u32>());
        std::mem::forget(b);
    }
    #[kani::proof]
    fn not_leaky() {
        let b = Box::new(kani::any::<u32>());
        drop(b);
    }
}

//! bx_types -- bounded stand-in for C17 (kept in its own binary: the macro-expanded type grammar
//! takes minutes to compile and must not slow down the other bx commands).
extern crate self as bx_types;

use std::{collections::BTreeSet, env, panic, process::exit};

use serde_json::{json, Value};
use truc::record::type_resolver::{HostTypeResolver, StaticTypeResolver, TypeResolver};

// ---------------------------------------------------------------------------------------------
// C17: bounded stand-in for the type-name pipeline (std::any::type_name -> syn parse -> path
// rewriting -> quote -> string: outside both verifiers).  For every type of a grammar up to nesting
// depth 3 the recorded name must equal, up to whitespace, the source tokens that denote the type
// (`stringify!($t)` of the very tokens used as the generic argument: the same type by construction),
// and a type table must answer for the short spelling, the spaced spelling, the whitespace-free
// spelling and the compiler's fully qualified spelling alike.

/// user-crate types: their path must be kept (only std paths are shortened)
pub mod ut {
    pub struct Inner(pub u8);
    pub struct Wrap<T>(pub T);
    pub mod deep {
        pub struct Deeper(pub u16);
        pub mod string {
            // a user type whose path *ends* like a std one
            pub struct String(pub u8);
        }
    }
    // user types whose path ends with the *whole* module path of one of the five shortened std
    // types (seed S_p17: a path match that is not anchored at the first segment shortens these too)
    pub mod alloc {
        pub mod string { pub struct String(pub u16); }
        pub mod vec { pub struct Vec<T>(pub T, pub u8); }
        pub mod boxed { pub struct Box<T>(pub T, pub u8); }
    }
    pub mod core {
        pub mod option { pub struct Option<T>(pub T, pub u8); }
        pub mod result { pub struct Result<T, E>(pub T, pub E, pub u8); }
    }
}

fn squeeze(s: &str) -> String {
    s.chars().filter(|c| !c.is_whitespace()).collect()
}

struct TypeReport {
    checked: u64,
    lookups: u64,
    distinct: BTreeSet<String>,
    violations: Vec<String>,
    samples: Vec<Value>,
}

/// the only generic part (instantiated once per type of the grammar): everything that needs `T`
fn check_one<T>(tokens: &str, rep: &mut TypeReport) {
    let recorded = panic::catch_unwind(|| HostTypeResolver.type_info::<T>().name).ok();
    let table = panic::catch_unwind(|| {
        let mut table = StaticTypeResolver::new();
        table.add_type::<T>();
        table
    })
    .ok();
    check_names(tokens, recorded, std::any::type_name::<T>(), std::mem::size_of::<T>(), std::mem::align_of::<T>(), table, rep);
}

fn check_names(tokens: &str, recorded: Option<String>, compiler_name: &str, size: usize, align: usize, table: Option<StaticTypeResolver>, rep: &mut TypeReport) {
    rep.checked += 1;
    let recorded = match recorded {
        Some(n) => n,
        None => {
            if rep.violations.len() < 10 { rep.violations.push(format!("C17: recording the name of `{}` panicked", tokens)); }
            return;
        }
    };
    if rep.distinct.insert(squeeze(tokens)) && rep.samples.len() < 3 && tokens.len() > 20 {
        rep.samples.push(json!({"type": tokens, "compiler_name": compiler_name, "recorded_name": recorded}));
    }
    if squeeze(&recorded) != squeeze(tokens) {
        if rep.violations.len() < 10 {
            rep.violations.push(format!("C17: type `{}` is recorded as `{}` (compiler name `{}`)", tokens, recorded, compiler_name));
        }
        return;
    }
    let table = match table {
        Some(t) => t,
        None => {
            if rep.violations.len() < 10 { rep.violations.push(format!("C17: registering `{}` in a type table panicked", tokens)); }
            return;
        }
    };
    let spaced: String = tokens.chars().flat_map(|c| if "<>,;[]()".contains(c) { vec![' ', c, ' '] } else { vec![c] }).collect();
    for spelling in [tokens.to_owned(), squeeze_keep_separators(tokens), spaced, compiler_name.to_owned(), recorded.clone()] {
        rep.lookups += 1;
        let r = panic::catch_unwind(panic::AssertUnwindSafe(|| table.dynamic_type_info(&spelling)));
        match r {
            Ok(info) if info.info.size == size && info.info.align == align => {}
            Ok(_) => if rep.violations.len() < 10 { rep.violations.push(format!("C17: table lookup of `{}` answers another type", spelling)); },
            Err(_) => if rep.violations.len() < 10 { rep.violations.push(format!("C17: table lookup of `{}` (a spelling of `{}`) fails", spelling, tokens)); },
        }
    }
}

/// whitespace removed except where it separates two identifier characters
fn squeeze_keep_separators(s: &str) -> String {
    let cs: Vec<char> = s.chars().collect();
    let mut out = String::new();
    for (i, c) in cs.iter().enumerate() {
        if c.is_whitespace() {
            let prev = out.chars().last();
            let next = cs[i + 1..].iter().find(|c| !c.is_whitespace());
            if let (Some(p), Some(n)) = (prev, next) {
                if (p.is_alphanumeric() || p == '_') && (n.is_alphanumeric() || *n == '_') {
                    out.push(' ');
                }
            }
        } else {
            out.push(*c);
        }
    }
    out
}

macro_rules! level0 {
    ($rep:expr, $($t:ty),*) => { $( check_one::<$t>(stringify!($t), $rep); )* };
}
macro_rules! level1 {
    ($rep:expr, $($t:ty),*) => { $( level0!($rep, $t, Box<$t>, Vec<$t>, Option<$t>, [$t; 3], Box<[$t]>, ($t, u8), Result<$t, String>); )* };
}
macro_rules! level2 {
    ($rep:expr, $($t:ty),*) => { $( level1!($rep, $t, Box<$t>, Vec<$t>, Option<$t>, [$t; 3], Box<[$t]>, ($t, u8), Result<$t, String>); )* };
}
macro_rules! level3 {
    ($rep:expr, $($t:ty),*) => { $( level2!($rep, $t, Box<$t>, Vec<$t>, Option<$t>, [$t; 3], Box<[$t]>, ($t, u8), Result<$t, String>); )* };
}

fn arg(args: &[String], name: &str) -> Option<String> {
    args.iter().position(|a| a == name).and_then(|i| args.get(i + 1).cloned())
}

fn main() {
    let args: Vec<String> = env::args().collect();
    panic::set_hook(Box::new(|_| {}));
    let args = &args;
    let depth: usize = arg(args, "--depth").map_or(2, |s| s.parse().unwrap());
    let mut rep = TypeReport { checked: 0, lookups: 0, distinct: BTreeSet::new(), violations: Vec::new(), samples: Vec::new() };
    if depth >= 3 {
        level3!(&mut rep, u8, u32, usize, bool, String, ());
    } else {
        level2!(&mut rep, u8, u32, usize, bool, String, ());
    }
    // user-crate types, alone and inside / around std constructors
    level1!(&mut rep, bx_types::ut::Inner, bx_types::ut::deep::Deeper, bx_types::ut::deep::string::String, bx_types::ut::Wrap<String>, bx_types::ut::Wrap<bx_types::ut::Inner>,
        bx_types::ut::Wrap<Vec<bx_types::ut::deep::Deeper>>);
    level1!(&mut rep, bx_types::ut::alloc::string::String, bx_types::ut::alloc::vec::Vec<u32>, bx_types::ut::alloc::boxed::Box<String>,
        bx_types::ut::core::option::Option<u32>, bx_types::ut::core::result::Result<u8, Vec<u16>>,
        bx_types::ut::core::option::Option<Option<bx_types::ut::alloc::vec::Vec<u8>>>);
    let res = json!({"depth": depth, "checked": rep.checked, "distinct_types": rep.distinct.len(), "lookups": rep.lookups,
        "violations": rep.violations, "samples": rep.samples});
    println!("{}", serde_json::to_string_pretty(&res).unwrap());
    for v in &rep.violations { println!("REPLAY: violated {}", v); }
    exit(if rep.violations.is_empty() { 0 } else { 1 });
}

"""Minimal Rust lexer: enough to find items, match delimiters and locate loops / closures /
macro calls by *token structure* (never by line number).  Tokens carry byte offsets into the
original text so that every edit is a splice of the original source (extraction copies text
verbatim; it never pretty-prints)."""
import re
from dataclasses import dataclass


@dataclass
class Tok:
    kind: str   # ident, punct, lit, lifetime, open, close
    text: str
    start: int
    end: int


class LexError(Exception):
    pass


_ident = re.compile(r'[A-Za-z_][A-Za-z0-9_]*')
_num = re.compile(r'[0-9][0-9A-Za-z_]*(\.[0-9][0-9A-Za-z_]*)?')
_puncts = ['>>=', '<<=', '...', '..=', '::', '->', '=>', '==', '!=', '<=', '>=', '&&', '||',
           '+=', '-=', '*=', '/=', '%=', '^=', '&=', '|=', '<<', '>>', '..']


def lex(src: str):
    toks = []
    i, n = 0, len(src)
    while i < n:
        c = src[i]
        if c.isspace():
            i += 1
            continue
        if src.startswith('//', i):
            j = src.find('\n', i)
            i = n if j < 0 else j
            continue
        if src.startswith('/*', i):
            depth, j = 1, i + 2
            while j < n and depth:
                if src.startswith('/*', j):
                    depth += 1; j += 2
                elif src.startswith('*/', j):
                    depth -= 1; j += 2
                else:
                    j += 1
            i = j
            continue
        # raw strings / byte strings
        m = re.match(r'b?r(#*)"', src[i:i + 40])
        if m:
            hashes = m.group(1)
            endpat = '"' + hashes
            j = src.find(endpat, i + len(m.group(0)))
            if j < 0:
                raise LexError('unterminated raw string')
            j += len(endpat)
            toks.append(Tok('lit', src[i:j], i, j)); i = j
            continue
        if c == '"' or (c == 'b' and i + 1 < n and src[i + 1] == '"'):
            j = i + (2 if c == 'b' else 1)
            while j < n and src[j] != '"':
                j += 2 if src[j] == '\\' else 1
            j += 1
            toks.append(Tok('lit', src[i:j], i, j)); i = j
            continue
        if c == "'":
            # char literal or lifetime
            m = re.match(r"'(\\.[^']*|[^\\'])'", src[i:i + 12])
            if m:
                j = i + len(m.group(0))
                toks.append(Tok('lit', src[i:j], i, j)); i = j
                continue
            m = _ident.match(src, i + 1)
            if m:
                toks.append(Tok('lifetime', src[i:m.end()], i, m.end())); i = m.end()
                continue
            raise LexError("stray ' at %d" % i)
        m = _ident.match(src, i)
        if m:
            t = m.group(0)
            if t == 'r' and src.startswith('r#', i) and _ident.match(src, i + 2):
                m2 = _ident.match(src, i + 2)
                toks.append(Tok('ident', src[i:m2.end()], i, m2.end())); i = m2.end()
                continue
            toks.append(Tok('ident', t, i, m.end())); i = m.end()
            continue
        m = _num.match(src, i)
        if m:
            # do not swallow `0..n` ranges or `1.foo()`
            t = m.group(0)
            if '.' in t and (src.startswith('..', i + t.index('.')) or
                             re.match(r'\.[A-Za-z_]', t[t.index('.'):])):
                t = t[:t.index('.')]
            toks.append(Tok('lit', t, i, i + len(t))); i += len(t)
            continue
        if c in '([{':
            toks.append(Tok('open', c, i, i + 1)); i += 1
            continue
        if c in ')]}':
            toks.append(Tok('close', c, i, i + 1)); i += 1
            continue
        for p in _puncts:
            if src.startswith(p, i):
                toks.append(Tok('punct', p, i, i + len(p))); i += len(p)
                break
        else:
            toks.append(Tok('punct', c, i, i + 1)); i += 1
    return toks


_pairs = {'(': ')', '[': ']', '{': '}'}


def match_delims(toks):
    """index of matching close for every open token index (and vice versa)."""
    stack, m = [], {}
    for k, t in enumerate(toks):
        if t.kind == 'open':
            stack.append(k)
        elif t.kind == 'close':
            if not stack:
                raise LexError('unbalanced close at %d' % t.start)
            o = stack.pop()
            if _pairs[toks[o].text] != t.text:
                raise LexError('mismatched delimiters at %d' % t.start)
            m[o] = k; m[k] = o
    if stack:
        raise LexError('unbalanced open at %d' % toks[stack[-1]].start)
    return m

//! bx_vec -- bounded stand-in for the *panic half* of C09 (and, as a cross-check at larger lengths,
//! its error half): Kani does not unwind, so "the converter panics at element p" cannot be an
//! obligation there.  The real `try_convert_vec_in_place` of /repo is executed natively for every
//! vector length <= N, every failure position, every converted/abandoned pattern of the preceding
//! elements, both failure kinds and three failure phases, over four element families, and the
//! postcondition of C09 is checked with a drop ledger, a call counter, a counting allocator and the
//! identity of the error value / panic payload.
#![allow(dead_code)]
use std::{
    alloc::{GlobalAlloc, Layout, System},
    env,
    panic::{self, AssertUnwindSafe},
    process::exit,
    sync::atomic::{AtomicI64, AtomicU64, AtomicUsize, Ordering::SeqCst},
};

use serde_json::{json, Value};
use truc_runtime::convert::{try_convert_vec_in_place, VecElementConversionResult};

// ---- counting allocator: live bytes -----------------------------------------------------------
struct Counting;
static LIVE: AtomicI64 = AtomicI64::new(0);
unsafe impl GlobalAlloc for Counting {
    unsafe fn alloc(&self, l: Layout) -> *mut u8 {
        LIVE.fetch_add(l.size() as i64, SeqCst);
        System.alloc(l)
    }
    unsafe fn dealloc(&self, p: *mut u8, l: Layout) {
        LIVE.fetch_sub(l.size() as i64, SeqCst);
        System.dealloc(p, l)
    }
    unsafe fn realloc(&self, p: *mut u8, l: Layout, n: usize) -> *mut u8 {
        LIVE.fetch_add(n as i64 - l.size() as i64, SeqCst);
        System.realloc(p, l, n)
    }
}
#[global_allocator]
static A: Counting = Counting;

// ---- ledger -------------------------------------------------------------------------------------
const MAXID: usize = 64;
static DROPS: [AtomicUsize; MAXID] = [const { AtomicUsize::new(0) }; MAXID];
static NEXT: AtomicUsize = AtomicUsize::new(0);
static CALLS: AtomicUsize = AtomicUsize::new(0);
// the case being run (the converter is a capture-free closure: it must be RefUnwindSafe)
static FAIL_AT: AtomicUsize = AtomicUsize::new(0);
static PATTERN: AtomicU64 = AtomicU64::new(0);
static KIND: AtomicUsize = AtomicUsize::new(0); // 0 = Err, 1 = panic
static PHASE: AtomicUsize = AtomicUsize::new(0); // 0 = at once, 1 = after dropping the input, 2 = after building the output
static PAYLOAD: AtomicU64 = AtomicU64::new(0);
static PREV_SEEN: AtomicUsize = AtomicUsize::new(0); // bit k set: call k received Some(previous output)
static PREV_OK: AtomicUsize = AtomicUsize::new(1);

fn fresh() -> u32 {
    let id = NEXT.fetch_add(1, SeqCst);
    assert!(id < MAXID);
    id as u32
}
fn dropped(id: u32) {
    DROPS[id as usize].fetch_add(1, SeqCst);
}

trait Elem: Sized {
    fn make() -> Self;
    fn id(&self) -> u32;
    /// the input element this output was made from (outputs only), set by the converter
    fn set_origin(&mut self, _o: u32) {}
    fn origin(&self) -> u32 {
        u32::MAX
    }
}

macro_rules! family {
    ($i:ident, $o:ident, $($attr:meta)?, $pad:ty, $padv:expr) => {
        $(#[$attr])?
        struct $i { id: u32, origin: u32, _pad: $pad }
        $(#[$attr])?
        struct $o { id: u32, origin: u32, _pad: $pad }
        impl Drop for $i { fn drop(&mut self) { dropped(self.id) } }
        impl Drop for $o { fn drop(&mut self) { dropped(self.id) } }
        impl Elem for $i {
            fn make() -> Self { $i { id: fresh(), origin: u32::MAX, _pad: $padv } }
            fn id(&self) -> u32 { self.id }
        }
        impl Elem for $o {
            fn make() -> Self { $o { id: fresh(), origin: u32::MAX, _pad: $padv } }
            fn id(&self) -> u32 { self.id }
            fn set_origin(&mut self, o: u32) { self.origin = o }
            fn origin(&self) -> u32 { self.origin }
        }
    };
}
family!(TokIn, TokOut, , (), ());
family!(LargeIn, LargeOut, , [u64; 9], [7; 9]);
family!(AlignIn, AlignOut, repr(align(32)), u8, 1);

// heap-owning family
struct BoxIn(Box<(u32, u32)>);
struct BoxOut(Box<(u32, u32)>);
impl Drop for BoxIn { fn drop(&mut self) { dropped(self.0 .0) } }
impl Drop for BoxOut { fn drop(&mut self) { dropped(self.0 .0) } }
impl Elem for BoxIn {
    fn make() -> Self { BoxIn(Box::new((fresh(), u32::MAX))) }
    fn id(&self) -> u32 { self.0 .0 }
}
impl Elem for BoxOut {
    fn make() -> Self { BoxOut(Box::new((fresh(), u32::MAX))) }
    fn id(&self) -> u32 { self.0 .0 }
    fn set_origin(&mut self, o: u32) { self.0 .1 = o }
    fn origin(&self) -> u32 { self.0 .1 }
}

#[derive(Debug, PartialEq)]
struct MyErr(u64);
struct MyPayload(u64);

#[derive(Clone, Debug)]
struct Case {
    family: usize,
    len: usize,
    fail_at: usize, // == len: no failure
    pattern: u64,   // bit k: element k is converted (else abandoned)
    kind: usize,
    phase: usize,
}

fn case_json(c: &Case) -> Value {
    let fam = ["tokens", "large", "overaligned", "boxes"][c.family];
    let kind = ["error", "panic"][c.kind];
    let phase = ["at once", "after dropping the input", "after building the output"][c.phase];
    json!({"family": fam, "len": c.len, "fail_at": c.fail_at,
           "pattern": (0..c.fail_at.min(c.len)).map(|k| if c.pattern >> k & 1 == 1 { "converted" } else { "abandoned" }).collect::<Vec<_>>(),
           "pattern_bits": c.pattern, "kind": kind,
           "phase": phase, "family_index": c.family, "kind_index": c.kind, "phase_index": c.phase})
}

fn converter<I: Elem, O: Elem>(input: I, prev: Option<&mut O>) -> Result<VecElementConversionResult<O>, MyErr> {
    let k = CALLS.fetch_add(1, SeqCst);
    // the previous output, if any, must be the most recently produced one
    {
        let pattern = PATTERN.load(SeqCst);
        let last = (0..k).rev().find(|j| pattern >> j & 1 == 1);
        match (prev, last) {
            (None, None) => {}
            (Some(p), Some(j)) if p.origin() == j as u32 => {
                PREV_SEEN.fetch_or(1 << k, SeqCst);
            }
            _ => PREV_OK.store(0, SeqCst),
        }
    }
    if k == FAIL_AT.load(SeqCst) {
        let phase = PHASE.load(SeqCst);
        let mut out = None;
        let mut input = Some(input);
        if phase >= 1 {
            input = None; // dropped here
        }
        if phase >= 2 {
            out = Some(O::make());
        }
        if KIND.load(SeqCst) == 0 {
            let e = Err(MyErr(PAYLOAD.load(SeqCst)));
            drop(out);
            drop(input);
            return e;
        }
        let _keep = (out, input); // dropped by the unwinding
        panic::panic_any(MyPayload(PAYLOAD.load(SeqCst)));
    }
    let origin = k as u32;
    drop(input);
    if PATTERN.load(SeqCst) >> k & 1 == 1 {
        let mut o = O::make();
        o.set_origin(origin);
        Ok(VecElementConversionResult::Converted(o))
    } else {
        Ok(VecElementConversionResult::Abandonned)
    }
}

fn run<I: Elem, O: Elem>(c: &Case) -> Vec<String> {
    let mut bad = Vec::new();
    for d in DROPS.iter() {
        d.store(0, SeqCst);
    }
    NEXT.store(0, SeqCst);
    CALLS.store(0, SeqCst);
    PREV_SEEN.store(0, SeqCst);
    PREV_OK.store(1, SeqCst);
    FAIL_AT.store(c.fail_at, SeqCst);
    PATTERN.store(c.pattern, SeqCst);
    KIND.store(c.kind, SeqCst);
    PHASE.store(c.phase, SeqCst);
    let payload = 0xC0FFEE00 + (c.len as u64) * 64 + c.fail_at as u64;
    PAYLOAD.store(payload, SeqCst);
    let live_before = LIVE.load(SeqCst);
    {
        let mut v: Vec<I> = Vec::with_capacity(c.len + 1);
        for _ in 0..c.len {
            v.push(I::make());
        }
        let (ptr, cap) = (v.as_ptr() as usize, v.capacity());
        let res = panic::catch_unwind(AssertUnwindSafe(|| try_convert_vec_in_place::<I, O, _, MyErr>(v, converter::<I, O>)));
        let failing = c.fail_at < c.len;
        match res {
            Ok(Ok(out)) => {
                if failing {
                    bad.push("C09: the failure of the converter was swallowed (a vector was returned)".to_owned());
                }
                let want: Vec<u32> = (0..c.len).filter(|k| c.pattern >> k & 1 == 1).map(|k| k as u32).collect();
                let got: Vec<u32> = out.iter().map(|o| o.origin()).collect();
                if !failing && got != want {
                    bad.push(format!("C08: result holds outputs of inputs {:?}, expected {:?}", got, want));
                }
                if out.as_ptr() as usize != ptr || out.capacity() != cap {
                    bad.push("C08: the result does not reuse the input vector's allocation and capacity".to_owned());
                }
                drop(out);
            }
            Ok(Err(e)) => {
                if !(failing && c.kind == 0) {
                    bad.push("C09: an error was returned although the converter did not return one".to_owned());
                } else if e != MyErr(payload) {
                    bad.push("C09: the caller does not receive the converter's own error value".to_owned());
                }
            }
            Err(p) => {
                if !(failing && c.kind == 1) {
                    bad.push("C09: a panic reached the caller although the converter did not panic".to_owned());
                } else {
                    match p.downcast_ref::<MyPayload>() {
                        Some(MyPayload(x)) if *x == payload => {}
                        _ => bad.push("C09: the caller does not receive the converter's own panic payload".to_owned()),
                    }
                }
                drop(p);
            }
        }
        let calls = CALLS.load(SeqCst);
        let want_calls = if failing { c.fail_at + 1 } else { c.len };
        if calls != want_calls {
            bad.push(format!("C09: the converter was called {} times, expected {} (not called again after the failure, each element once)", calls, want_calls));
        }
    }
    let made = NEXT.load(SeqCst);
    for id in 0..made {
        let n = DROPS[id].load(SeqCst);
        let what = if id < c.len { format!("input element {}", id) } else { format!("value {} created by the converter", id) };
        if n == 0 {
            bad.push(format!("C09: {} was never dropped (leak)", what));
        } else if n > 1 {
            bad.push(format!("C09: {} was dropped {} times", what, n));
        }
    }
    if PREV_OK.load(SeqCst) == 0 {
        bad.push("C08: the previous-output argument is not the most recently produced output (or none before the first)".to_owned());
    }
    let live_after = LIVE.load(SeqCst);
    if live_after != live_before {
        bad.push(format!("C09: {} bytes of heap are still allocated afterwards (the vector's allocation is not released)", live_after - live_before));
    }
    bad
}

fn run_case(c: &Case) -> Vec<String> {
    match c.family {
        0 => run::<TokIn, TokOut>(c),
        1 => run::<LargeIn, LargeOut>(c),
        2 => run::<AlignIn, AlignOut>(c),
        _ => run::<BoxIn, BoxOut>(c),
    }
}

// ---- C10: refusal of mismatching element types ("the input vector is then dropped normally") ------
struct Bytes8In([u8; 8]);
impl Drop for Bytes8In { fn drop(&mut self) { dropped(self.0[0] as u32) } }
impl Elem for Bytes8In {
    fn make() -> Self { Bytes8In([fresh() as u8; 8]) }
    fn id(&self) -> u32 { self.0[0] as u32 }
}
static ZMADE: AtomicUsize = AtomicUsize::new(0);
static ZDROPPED: AtomicUsize = AtomicUsize::new(0);
struct ZIn;
impl Drop for ZIn { fn drop(&mut self) { ZDROPPED.fetch_add(1, SeqCst); } }
impl Elem for ZIn {
    fn make() -> Self { ZMADE.fetch_add(1, SeqCst); ZIn }
    fn id(&self) -> u32 { 0 }
}

fn refuse<I: Elem, O>(pair: &str, len: usize) -> Vec<String> {
    let mut bad = Vec::new();
    for d in DROPS.iter() {
        d.store(0, SeqCst);
    }
    NEXT.store(0, SeqCst);
    CALLS.store(0, SeqCst);
    ZMADE.store(0, SeqCst);
    ZDROPPED.store(0, SeqCst);
    let live_before = LIVE.load(SeqCst);
    {
        let mut v: Vec<I> = Vec::with_capacity(len + 1);
        for _ in 0..len {
            v.push(I::make());
        }
        let res = panic::catch_unwind(AssertUnwindSafe(|| {
            try_convert_vec_in_place::<I, O, _, MyErr>(v, |_i, _p| {
                CALLS.fetch_add(1, SeqCst);
                Ok(VecElementConversionResult::Abandonned)
            })
        }));
        match res {
            Err(p) => drop(p),
            Ok(r) => {
                bad.push(format!("C10: conversion {} of a vector of {} was not refused", pair, len));
                std::mem::forget(r); // the reinterpreted vector must not be touched
                return bad;
            }
        }
    }
    if CALLS.load(SeqCst) != 0 {
        bad.push(format!("C10: the converter was called before the refusal ({})", pair));
    }
    for id in 0..NEXT.load(SeqCst) {
        let n = DROPS[id].load(SeqCst);
        if n != 1 {
            bad.push(format!("C10: after the refusal of {} input element {} was dropped {} times", pair, id, n));
        }
    }
    if ZMADE.load(SeqCst) != ZDROPPED.load(SeqCst) {
        bad.push(format!("C10: after the refusal of {} {} zero-size inputs were created and {} dropped", pair, ZMADE.load(SeqCst), ZDROPPED.load(SeqCst)));
    }
    if LIVE.load(SeqCst) != live_before {
        bad.push(format!("C10: after the refusal of {} {} bytes of heap are still allocated", pair, LIVE.load(SeqCst) - live_before));
    }
    bad
}

const PAIRS: [&str; 7] = ["8/4 -> 4/4 (size)", "8/4 -> 8/1 (alignment, high to low)", "8/1 -> 8/8 (alignment, low to high)", "0/1 -> 1/1 (zero-size input)",
    "8/4 -> 0/1 (zero-size output)", "0/1 -> 0/8 (zero-size, alignment)", "80/8 -> 80/16 (alignment)"];

fn refuse_pair(k: usize, len: usize) -> Vec<String> {
    #[repr(align(16))]
    struct A80([u64; 10]);
    match k {
        0 => refuse::<TokIn, u32>(PAIRS[0], len),
        1 => refuse::<TokIn, [u8; 8]>(PAIRS[1], len),
        2 => refuse::<Bytes8In, u64>(PAIRS[2], len),
        3 => refuse::<ZIn, u8>(PAIRS[3], len),
        4 => refuse::<TokIn, ()>(PAIRS[4], len),
        5 => refuse::<ZIn, [u64; 0]>(PAIRS[5], len),
        _ => refuse::<LargeIn, A80>(PAIRS[6], len),
    }
}

fn arg(args: &[String], name: &str) -> Option<String> {
    args.iter().position(|a| a == name).and_then(|i| args.get(i + 1).cloned())
}

fn main() {
    let args: Vec<String> = env::args().collect();
    panic::set_hook(Box::new(|_| {}));
    // warm-up: whatever the panic machinery allocates once is allocated before anything is measured
    let _ = panic::catch_unwind(|| panic::panic_any(MyPayload(0)));
    if let Some(cj) = arg(&args, "--case") {
        let v: Value = serde_json::from_str(&cj).unwrap();
        let g = |k: &str| v[k].as_u64().unwrap() as usize;
        if v.get("refusal_pair").is_some() {
            let bad = refuse_pair(g("refusal_pair"), g("len"));
            println!("{}", serde_json::to_string_pretty(&json!({"case": v, "violated": bad})).unwrap());
            for b in &bad {
                println!("REPLAY: violated {}", b);
            }
            exit(if bad.is_empty() { 0 } else { 1 });
        }
        let c = Case { family: g("family_index"), len: g("len"), fail_at: g("fail_at"), pattern: v["pattern_bits"].as_u64().unwrap(), kind: g("kind_index"), phase: g("phase_index") };
        let bad = run_case(&c);
        println!("{}", serde_json::to_string_pretty(&json!({"case": case_json(&c), "violated": bad})).unwrap());
        for b in &bad {
            println!("REPLAY: violated {}", b);
        }
        exit(if bad.is_empty() { 0 } else { 1 });
    }
    let max_len: usize = arg(&args, "--max-len").map_or(5, |s| s.parse().unwrap());
    let mut cases = 0u64;
    let mut panics = 0u64;
    let mut sample = None;
    let mut violation = None;
    'outer: for family in 0..4 {
        for len in 0..=max_len {
            for fail_at in 0..=len {
                {
                    for pat in 0..(1u64 << fail_at) {
                        for kind in 0..2 {
                            for phase in 0..3 {
                                if fail_at == len && (kind, phase) != (0, 0) {
                                    continue;
                                }
                                let c = Case { family, len, fail_at, pattern: pat, kind, phase };
                                cases += 1;
                                if fail_at < len && kind == 1 {
                                    panics += 1;
                                }
                                if sample.is_none() && family == 3 && len == 3 && fail_at == 2 && kind == 1 && phase == 2 && pat == 1 {
                                    sample = Some(case_json(&c));
                                }
                                let bad = run_case(&c);
                                if !bad.is_empty() {
                                    violation = Some(json!({"case": case_json(&c), "clauses": bad}));
                                    break 'outer;
                                }
                            }
                        }
                    }
                }
            }
        }
    }
    let mut refusals = 0u64;
    if violation.is_none() {
        'r: for k in 0..PAIRS.len() {
            for len in 0..=max_len {
                refusals += 1;
                let bad = refuse_pair(k, len);
                if !bad.is_empty() {
                    violation = Some(json!({"case": {"refusal_pair": k, "pair": PAIRS[k], "len": len}, "clauses": bad}));
                    break 'r;
                }
            }
        }
    }
    println!("{}", serde_json::to_string(&json!({"max_len": max_len, "refusal_cases": refusals, "cases": cases, "panic_cases": panics, "sample": sample, "violation": violation})).unwrap());
    exit(if violation.is_some() { 1 } else { 0 });
}

//! gk_native: runs the native (not Kani) harnesses of the corpus - the panic clause of C16 - and
//! prints one JSON object.  Exit 0: all passed; 1: a harness failed; the failing harnesses are listed.
#[cfg(not(kani))]
use std::panic;

#[cfg(kani)]
fn main() {}

#[cfg(not(kani))]
fn main() {
    let filter: Option<String> = std::env::args().nth(1);
    let msgs = std::sync::Arc::new(std::sync::Mutex::new(Vec::<String>::new()));
    let m2 = msgs.clone();
    panic::set_hook(Box::new(move |info| {
        let s = info.payload().downcast_ref::<String>().cloned()
            .or_else(|| info.payload().downcast_ref::<&str>().map(|s| s.to_string())).unwrap_or_default();
        m2.lock().unwrap().push(s);
    }));
    let mut ran = 0;
    let mut failed: Vec<(String, String)> = Vec::new();
    let mut names: Vec<String> = Vec::new();
    for (name, f) in gk::native_table() {
        if let Some(fl) = &filter {
            if !name.contains(fl.as_str()) {
                continue;
            }
        }
        ran += 1;
        names.push(name.to_string());
        msgs.lock().unwrap().clear();
        if panic::catch_unwind(f).is_err() {
            // the last message is the harness' own assertion (earlier ones are injected panics)
            let m = msgs.lock().unwrap().last().cloned().unwrap_or_default();
            failed.push((name.to_string(), m));
        }
    }
    let esc = |s: &str| s.replace('\\', "\\\\").replace('"', "\\\"");
    println!("{{\"ran\": {}, \"failed\": [{}], \"harnesses\": [{}]}}", ran,
        failed.iter().map(|(n, m)| format!("{{\"harness\": \"{}\", \"message\": \"{}\"}}", esc(n), esc(m))).collect::<Vec<_>>().join(", "),
        names.iter().map(|n| format!("\"{}\"", esc(n))).collect::<Vec<_>>().join(", "));
    std::process::exit(if failed.is_empty() { 0 } else { 1 });
}

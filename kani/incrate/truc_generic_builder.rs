// Included by the cfg(kani) hook at the end of /repo/truc/src/record/definition/builder/generic/mod.rs.
//
// B5: name lookup of the generic builder and duplicate-name rejection of add_datum: the part of
// the builder Verus takes under an assumed contract (unit `builder`).  The state is written as a
// struct literal (no builder operations before the one under test).
// BOUNDED: last variant [a, b]; optional pending removal of a and/or b; optional pending addition c.
use super::*;

fn def(id: usize, name: &str) -> DatumDefinition<()> {
    DatumDefinition::new(DatumId::from(id), name.to_owned(), ())
}

struct Prepared {
    b: GenericRecordDefinitionBuilder<()>,
    rm_a: bool,
    rm_b: bool,
    add_c: bool,
    /// `a` was removed and a NEW datum (id 3) with the same name was added in the open variant
    readd_a: bool,
}

fn prepare() -> Prepared {
    let rm_a: bool = kani::any();
    let rm_b: bool = kani::any();
    let add_c: bool = kani::any();
    let readd_a: bool = if rm_a { kani::any() } else { false };
    let mut to_remove = Vec::with_capacity(2);
    if rm_b {
        to_remove.push(DatumId::from(1));
    }
    if rm_a {
        to_remove.push(DatumId::from(0));
    }
    let mut to_add = Vec::with_capacity(2);
    if add_c {
        to_add.push(DatumId::from(2));
    }
    if readd_a {
        to_add.push(DatumId::from(3));
    }
    let mut c = DatumDefinitionCollection::<()>::default();
    c.push("a".to_owned(), ());
    c.push("b".to_owned(), ());
    // the collection may also hold a datum that was added and forgotten: never visible
    c.push(if add_c { "c".to_owned() } else { "d".to_owned() }, ());
    // id 3: either the re-added `a`, or a datum that was added and forgotten again (never visible)
    c.push("a".to_owned(), ());
    let b = GenericRecordDefinitionBuilder {
        datum_definitions: c,
        variants: vec![RecordVariant::new(RecordVariantId::from(0), vec![DatumId::from(0), DatumId::from(1)])],
        data_to_add: to_add,
        data_to_remove: to_remove,
    };
    Prepared { b, rm_a, rm_b, add_c, readd_a }
}

fn pick() -> (u8, &'static str) {
    let which: u8 = kani::any();
    kani::assume(which < 4);
    (which, match which { 0 => "a", 1 => "b", 2 => "c", _ => "d" })
}

fn expected(p: &Prepared, which: u8) -> bool {
    match which { 0 => !p.rm_a || p.readd_a, 1 => !p.rm_b, 2 => p.add_c, _ => false }
}

pub fn fmt_stub(_args: std::fmt::Arguments<'_>) -> String {
    String::new()
}

#[kani::proof]
#[kani::unwind(6)]
#[kani::stub(alloc::fmt::format, fmt_stub)]
pub fn c12_lookup_by_name_in_current_variant() {
    let p = prepare();
    let (which, name) = pick();
    let found = p.b.get_current_datum_definition_by_name(name);
    assert!(found.is_some() == expected(&p, which), "C12: lookup disagrees with last - removed + added");
    if let Some(d) = found {
        let want = if which == 0 && p.readd_a { 3 } else { which as usize };
        assert!(d.id() == DatumId::from(want), "C12: lookup returned another datum");
    }
    kani::cover!(which == 0 && p.rm_a, "reachable: name of a datum pending removal");
    kani::cover!(which == 2 && p.add_c, "reachable: name of a pending addition");
}

#[kani::proof]
#[kani::unwind(6)]
#[kani::stub(alloc::fmt::format, fmt_stub)]
pub fn c12_current_data_is_last_minus_removed_plus_added() {
    let p = prepare();
    let which: u8 = kani::any();
    kani::assume(which < 5);
    let x = DatumId::from(which as usize);
    let present = p.b.get_current_data().any(|d| d == x);
    let want = match which { 0 => !p.rm_a, 1 => !p.rm_b, 2 => p.add_c, 3 => p.readd_a, _ => false };
    assert!(present == want, "C12: current data is not last - removed + added");
}

#[kani::proof]
#[kani::unwind(6)]
#[kani::stub(alloc::fmt::format, fmt_stub)]
pub fn c12_add_rejects_exactly_clashing_names_and_changes_nothing() {
    let mut p = prepare();
    let (which, name) = pick();
    let clash = expected(&p, which);
    let n_defs = p.b.datum_definitions.data.len();
    let n_add = p.b.data_to_add.len();
    let n_rm = p.b.data_to_remove.len();
    let r = p.b.add_datum(name, ());
    assert!(r.is_err() == clash, "C12: add_datum must fail exactly when the name is carried by the variant being built");
    match r {
        Err(_) => {
            assert!(p.b.datum_definitions.data.len() == n_defs && p.b.data_to_add.len() == n_add && p.b.data_to_remove.len() == n_rm && p.b.variants.len() == 1,
                "C12: a rejected request changed the builder");
        }
        Ok(id) => {
            assert!(id == DatumId::from(n_defs), "C12: identifier reused");
            assert!(p.b.data_to_add.len() == n_add + 1 && p.b.data_to_add[n_add] == id && p.b.data_to_remove.len() == n_rm);
        }
    }
    kani::cover!(which == 0 && p.rm_a && r.is_ok(), "reachable: the name of a datum pending removal can be used again");
}

#[kani::proof]
#[kani::unwind(6)]
#[kani::stub(alloc::fmt::format, fmt_stub)]
pub fn c12_variant_lookup_by_name() {
    let p = prepare();
    let (which, name) = pick();
    let f0 = p.b.get_variant_datum_definition_by_name(RecordVariantId::from(0), name);
    assert!(f0.is_some() == (which < 2), "C12: lookup in a closed variant ignores pending changes");
    assert!(p.b.get_variant_datum_definition_by_name(RecordVariantId::from(1), name).is_none());
}

// `./check --replay` writes Kani's counterexample (a unit test) into this file and runs it natively
// with `cargo kani playback`; it is empty otherwise.
#[cfg(test)]
mod playback_generated {
    use super::*;
    include!(concat!(env!("VERIF_KANI_DIR"), "/playback_generic_builder.rs"));
}

//! Value model used by the generated harnesses: how to make a distinguishable value of each field
//! type from a seed, how to recognise it, and ghost drop counters for the droppable ones.
#![allow(static_mut_refs)]

pub const MAX_IDS: usize = 48;
pub static mut DROPS: [u8; MAX_IDS] = [0; MAX_IDS];
pub static mut NEXT_ID: usize = 0;

fn fresh_id() -> u8 {
    unsafe {
        let id = NEXT_ID;
        NEXT_ID += 1;
        assert!(id < MAX_IDS);
        id as u8
    }
}

/// native runs only: forget every token (each native harness starts from an empty ledger)
pub fn reset_ledger() {
    unsafe {
        NEXT_ID = 0;
        DROPS = [0; MAX_IDS];
        ZMADE = 0;
        ZDROPPED = 0;
        CLONE_COUNTDOWN = -1;
    }
}

/// native runs only: the n-th clone of a droppable value from now on panics (before anything is created)
pub static mut CLONE_COUNTDOWN: i32 = -1;
pub fn arm_clone_panic(n: i32) {
    unsafe { CLONE_COUNTDOWN = n }
}
pub fn disarm_clone_panic() {
    unsafe { CLONE_COUNTDOWN = -1 }
}
#[inline]
fn clone_hook() {
    #[cfg(not(kani))]
    unsafe {
        if CLONE_COUNTDOWN == 0 {
            CLONE_COUNTDOWN = -1;
            panic!("injected: a field's clone panics");
        }
        if CLONE_COUNTDOWN > 0 {
            CLONE_COUNTDOWN -= 1;
        }
    }
}

pub fn drops(id: u8) -> u8 {
    unsafe { DROPS[id as usize] }
}

/// every token created so far has been destroyed exactly once
pub fn all_tokens_dropped_exactly_once() -> bool {
    unsafe {
        let mut i = 0;
        let mut ok = true;
        while i < NEXT_ID {
            if DROPS[i] != 1 {
                ok = false;
            }
            i += 1;
        }
        ok && ZMADE == ZDROPPED
    }
}

/// no token created so far is still alive (to be asserted at the very end of a harness)
pub fn no_token_leaked() -> bool {
    unsafe {
        let mut i = 0;
        let mut ok = true;
        while i < NEXT_ID {
            if DROPS[i] == 0 {
                ok = false;
            }
            i += 1;
        }
        ok && ZDROPPED >= ZMADE
    }
}

/// no token created so far has been destroyed twice
pub fn no_token_dropped_twice() -> bool {
    unsafe {
        let mut i = 0;
        let mut ok = true;
        while i < NEXT_ID {
            if DROPS[i] > 1 {
                ok = false;
            }
            i += 1;
        }
        ok && ZDROPPED <= ZMADE
    }
}

/// one-byte droppable value with a ghost drop counter (`id`) and a payload (`val`)
#[derive(Debug)]
pub struct Tok {
    pub id: u8,
    pub val: u8,
}
impl Drop for Tok {
    fn drop(&mut self) {
        unsafe { DROPS[self.id as usize] += 1 }
    }
}
impl Clone for Tok {
    fn clone(&self) -> Self {
        clone_hook();
        Tok { id: fresh_id(), val: self.val }
    }
}

/// 8-byte, 4-aligned droppable value
#[derive(Debug)]
pub struct Tok4 {
    pub id: u32,
    pub val: u32,
}
impl Drop for Tok4 {
    fn drop(&mut self) {
        unsafe { DROPS[self.id as usize] += 1 }
    }
}
impl Clone for Tok4 {
    fn clone(&self) -> Self {
        clone_hook();
        Tok4 { id: fresh_id() as u32, val: self.val }
    }
}

/// over-aligned plain data
#[derive(Clone, Copy, Debug, PartialEq, Eq)]
#[repr(align(16))]
pub struct A16(pub u64);

/// 520-byte plain data (one payload word, the rest is ballast)
#[derive(Clone, Copy, Debug, PartialEq, Eq)]
#[repr(C)]
pub struct Big {
    pub v: u64,
    pub ballast: [u64; 64],
}

/// 136-byte plain data
#[derive(Clone, Copy, Debug, PartialEq, Eq)]
#[repr(C)]
pub struct Wide {
    pub v: u64,
    pub ballast: [u64; 16],
}

/// zero-size user type
#[derive(Clone, Copy, Debug, PartialEq, Eq)]
pub struct Zst;

/// zero-size *droppable* user type: it cannot carry an id, so creations and destructions are
/// counted globally (ZMADE / ZDROPPED)
#[derive(Debug)]
pub struct ZTok;
pub static mut ZMADE: usize = 0;
pub static mut ZDROPPED: usize = 0;
impl Drop for ZTok {
    fn drop(&mut self) {
        unsafe { ZDROPPED += 1 }
    }
}
impl Clone for ZTok {
    fn clone(&self) -> Self {
        clone_hook();
        unsafe { ZMADE += 1 }
        ZTok
    }
}
pub fn zmade() -> usize { unsafe { ZMADE } }
pub fn zdropped() -> usize { unsafe { ZDROPPED } }

#[derive(Clone, Copy)]
pub struct TokSeed {
    pub id: u8,
    pub val: u8,
}

pub trait Val: Sized {
    type Seed: Copy;
    fn seed() -> Self::Seed;
    fn make(s: Self::Seed) -> Self;
    fn is(&self, s: Self::Seed) -> bool;
    /// id of the ghost drop counter, if the type has one
    fn token(_s: Self::Seed) -> Option<u8> {
        None
    }
    /// value equality that ignores the ghost identity (for clones)
    fn same_value(&self, s: Self::Seed) -> bool {
        self.is(s)
    }
}

macro_rules! pod_val {
    ($($t:ty),*) => {$(
        impl Val for $t {
            type Seed = $t;
            fn seed() -> $t { nd::<$t>() }
            fn make(s: $t) -> $t { s }
            fn is(&self, s: $t) -> bool { *self == s }
        }
    )*};
}

#[cfg(kani)]
pub fn nd<T: kani::Arbitrary>() -> T {
    kani::any()
}
#[cfg(not(kani))]
pub fn nd<T: Default>() -> T {
    T::default()
}

pod_val!(u8, u16, u32, u64, u128, [u8; 3], [u32; 3], [u64; 3], Option<u32>);

impl Val for () {
    type Seed = ();
    fn seed() {}
    fn make(_: ()) {}
    fn is(&self, _: ()) -> bool { true }
}
impl Val for Zst {
    type Seed = ();
    fn seed() {}
    fn make(_: ()) -> Zst { Zst }
    fn is(&self, _: ()) -> bool { true }
}
impl Val for ZTok {
    type Seed = ();
    fn seed() {}
    fn make(_: ()) -> ZTok { unsafe { ZMADE += 1 } ZTok }
    fn is(&self, _: ()) -> bool { true }
}
impl Val for A16 {
    type Seed = u64;
    fn seed() -> u64 { nd::<u64>() }
    fn make(s: u64) -> A16 { A16(s) }
    fn is(&self, s: u64) -> bool { self.0 == s }
}
impl Val for Big {
    type Seed = u64;
    fn seed() -> u64 { nd::<u64>() }
    fn make(s: u64) -> Big { Big { v: s, ballast: [0; 64] } }
    fn is(&self, s: u64) -> bool { self.v == s }
}
impl Val for Wide {
    type Seed = u64;
    fn seed() -> u64 { nd::<u64>() }
    fn make(s: u64) -> Wide { Wide { v: s, ballast: [0; 16] } }
    fn is(&self, s: u64) -> bool { self.v == s }
}
impl Val for Box<u32> {
    type Seed = u32;
    fn seed() -> u32 { nd::<u32>() }
    fn make(s: u32) -> Box<u32> { Box::new(s) }
    fn is(&self, s: u32) -> bool { **self == s }
}
impl Val for Tok {
    type Seed = TokSeed;
    fn seed() -> TokSeed { TokSeed { id: fresh_id(), val: nd::<u8>() } }
    fn make(s: TokSeed) -> Tok { Tok { id: s.id, val: s.val } }
    fn is(&self, s: TokSeed) -> bool { self.id == s.id && self.val == s.val }
    fn token(s: TokSeed) -> Option<u8> { Some(s.id) }
    fn same_value(&self, s: TokSeed) -> bool { self.val == s.val }
}
impl Val for Tok4 {
    type Seed = TokSeed;
    fn seed() -> TokSeed { TokSeed { id: fresh_id(), val: nd::<u8>() } }
    fn make(s: TokSeed) -> Tok4 { Tok4 { id: s.id as u32, val: s.val as u32 } }
    fn is(&self, s: TokSeed) -> bool { self.id == s.id as u32 && self.val == s.val as u32 }
    fn token(s: TokSeed) -> Option<u8> { Some(s.id) }
    fn same_value(&self, s: TokSeed) -> bool { self.val == s.val as u32 }
}



// ---------------------------------------------------------------------------------------------
// serde glue for the C15 harnesses (see tokfmt.rs)
use crate::tokfmt::Token;

/// the token a value made from `seed` must be encoded as
pub trait TokVal: Val {
    fn token(s: Self::Seed) -> Token;
    /// some well-formed encoding of a value of this type (symbolic payload)
    fn any_token() -> Token;
}
impl TokVal for u8 { fn token(s: u8) -> Token { Token::U8(s) } fn any_token() -> Token { Token::U8(nd::<u8>()) } }
impl TokVal for u16 { fn token(s: u16) -> Token { Token::U16(s) } fn any_token() -> Token { Token::U16(nd::<u16>()) } }
impl TokVal for u32 { fn token(s: u32) -> Token { Token::U32(s) } fn any_token() -> Token { Token::U32(nd::<u32>()) } }
impl TokVal for Option<u32> { fn token(s: Option<u32>) -> Token { Token::OptU32(s) } fn any_token() -> Token { Token::OptU32(nd::<Option<u32>>()) } }
impl TokVal for u64 { fn token(s: u64) -> Token { Token::U64(s) } fn any_token() -> Token { Token::U64(nd::<u64>()) } }
impl TokVal for Big { fn token(s: u64) -> Token { Token::U64(s) } fn any_token() -> Token { Token::U64(nd::<u64>()) } }
impl serde::Serialize for Big {
    fn serialize<S: serde::Serializer>(&self, serializer: S) -> Result<S::Ok, S::Error> {
        serializer.serialize_u64(self.v)
    }
}
struct BigVisitor;
impl<'de> serde::de::Visitor<'de> for BigVisitor {
    type Value = Big;
    fn expecting(&self, _f: &mut std::fmt::Formatter) -> std::fmt::Result { Ok(()) }
    fn visit_u64<E: serde::de::Error>(self, v: u64) -> Result<Big, E> {
        Ok(Big { v, ballast: [0; 64] })
    }
}
impl<'de> serde::Deserialize<'de> for Big {
    fn deserialize<D: serde::Deserializer<'de>>(deserializer: D) -> Result<Big, D::Error> {
        deserializer.deserialize_u64(BigVisitor)
    }
}
impl TokVal for Wide { fn token(s: u64) -> Token { Token::U64(s) } fn any_token() -> Token { Token::U64(nd::<u64>()) } }
impl serde::Serialize for Wide {
    fn serialize<S: serde::Serializer>(&self, serializer: S) -> Result<S::Ok, S::Error> {
        serializer.serialize_u64(self.v)
    }
}
struct WideVisitor;
impl<'de> serde::de::Visitor<'de> for WideVisitor {
    type Value = Wide;
    fn expecting(&self, _f: &mut std::fmt::Formatter) -> std::fmt::Result { Ok(()) }
    fn visit_u64<E: serde::de::Error>(self, v: u64) -> Result<Wide, E> {
        Ok(Wide { v, ballast: [0; 16] })
    }
}
impl<'de> serde::Deserialize<'de> for Wide {
    fn deserialize<D: serde::Deserializer<'de>>(deserializer: D) -> Result<Wide, D::Error> {
        deserializer.deserialize_u64(WideVisitor)
    }
}
impl TokVal for Tok { fn token(s: TokSeed) -> Token { Token::U8(s.val) } fn any_token() -> Token { Token::U8(nd::<u8>()) } }

impl serde::Serialize for Tok {
    fn serialize<S: serde::Serializer>(&self, serializer: S) -> Result<S::Ok, S::Error> {
        serializer.serialize_u8(self.val)
    }
}
struct TokVisitor;
impl<'de> serde::de::Visitor<'de> for TokVisitor {
    type Value = Tok;
    fn expecting(&self, _f: &mut std::fmt::Formatter) -> std::fmt::Result { Ok(()) }
    fn visit_u8<E: serde::de::Error>(self, v: u8) -> Result<Tok, E> {
        Ok(Tok { id: fresh_id(), val: v })
    }
}
impl<'de> serde::Deserialize<'de> for Tok {
    fn deserialize<D: serde::Deserializer<'de>>(deserializer: D) -> Result<Tok, D::Error> {
        deserializer.deserialize_u8(TokVisitor)
    }
}
